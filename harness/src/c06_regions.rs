//! C06 — chunk-window confinement as a one-step inductive kernel over the region operations of
//! DeserializationContext (DESIGN.md §6.C06): from any cursor position, push a window (optionally a
//! second one nested in it) with arbitrary bounds inside the enclosing one, advance arbitrarily
//! inside it, then perform one arbitrary primitive read: every byte returned lies inside the
//! innermost window, a request that does not fit is an error, and popping restores the parent.
use crate::sym;
use desert_core::{BinaryInput, DeserializationContext};

proof! {
    //@ props=C06,C05,C07 tier=quick bounds=buffer=8;window-start/length/nesting/cursor/count:symbolic;one-push-or-two-nested;one-read-op
    fn c06_region_kernel() unwind(10) {
        let data: [u8; 8] = sym::bytes();
        let mut ctx = DeserializationContext::new(&data);
        let a = sym::index_below(9);
        match ctx.skip(a) { Ok(()) => {}, Err(e) => { std::mem::forget(e); assert!(false); } }
        // first window, relative to the whole input
        let s = sym::index_below(9);
        let l = sym::index_below(9);
        sym::assume(s + l <= 8);
        ctx.verif_push_region(s, l);
        let nested = sym::bool_();
        let mut abs = s;
        let mut lim = l;
        let mut s2 = 0;
        let mut l2 = 0;
        if nested {
            s2 = sym::index_below(9);
            l2 = sym::index_below(9);
            sym::assume(s2 + l2 <= l);
            ctx.verif_push_region(s2, l2);
            abs = s + s2;
            lim = l2;
        }
        let p = sym::index_below(9);
        sym::assume(p <= lim);
        match ctx.skip(p) {
            Ok(()) => {}
            Err(e) => { std::mem::forget(e); assert!(false, "skip inside the window failed"); }
        }
        let count = sym::usize_();
        let mut consumed = 0;
        match sym::below(3) {
            0 => match ctx.read_u8() {
                Ok(b) => {
                    assert!(p < lim, "read_u8 read past the end of its window");
                    assert!(b == data[abs + p], "read_u8 returned a byte from outside its window");
                    consumed = 1;
                    cover!(nested && s > 0 && s2 > 0);
                }
                Err(e) => {
                    assert!(p == lim, "read_u8 failed inside its window");
                    std::mem::forget(e);
                }
            },
            1 => match ctx.read_bytes(count) {
                Ok(sl) => {
                    assert!(count <= lim - p, "read_bytes read past the end of its window");
                    assert!(sl.len() == count);
                    assert!(std::ptr::eq(sl.as_ptr(), data.as_ptr().wrapping_add(abs + p)), "read_bytes returned bytes from outside its window");
                    consumed = count;
                    cover!(count == lim - p && count > 0 && s > 0);
                }
                Err(e) => {
                    assert!(count > lim - p, "read_bytes rejected a request that fits its window");
                    std::mem::forget(e);
                }
            },
            _ => match ctx.skip(count) {
                Ok(()) => {
                    assert!(count <= lim - p, "skip went past the end of its window");
                    consumed = count;
                }
                Err(e) => {
                    assert!(count > lim - p, "skip rejected a request that fits its window");
                    std::mem::forget(e);
                }
            },
        }
        if nested {
            let (rs, rp, re) = ctx.verif_pop_region();
            assert!(rs == s2 && rp == p + consumed && re == s2 + l2, "pop_region does not report the window it was given");
            let (rs, rp, re) = ctx.verif_pop_region();
            assert!(rs == s && rp == 0 && re == s + l);
        } else {
            let (rs, rp, re) = ctx.verif_pop_region();
            assert!(rs == s && rp == p + consumed && re == s + l, "pop_region does not report the window it was given");
        }
        assert!(ctx.verif_pos() == a, "the parent cursor moved while reading inside a window");
        assert!(ctx.verif_region_depth() == 0);
        std::mem::forget(ctx);
    }
}
