#!/usr/bin/env python3
"""Writes MANIFEST.json from the table below (kept as a script so that the 16 entries stay consistent)."""
import json, subprocess

REPO_HOOK_COMMITS = subprocess.run(["git", "-C", "/repo", "log", "--format=%h %s", "--grep=^verif hook"],
                                   stdout=subprocess.PIPE, text=True).stdout.strip().split("\n")

TECH = "bounded model checking of the compiled Rust (Kani 0.68 -> CBMC 6.11 -> CaDiCaL), harness vs. independent reference codec"

CHECKS = {
 "C01": ("§6.C01", "For each built-in instantiation of the catalogue the solver decides, for every value (all payload bits symbolic; every shape with <= 2-3 elements per sequence, <= 1-2 characters per string enumerated with concrete structure bytes), that the real encoder emits exactly the reference bytes and that the real decoder maps the reference bytes back to the value; together: decode(encode(v)) == v. Bounded by the catalogue and the container sizes, not by sampled values.",
         "hash/ordered sets and maps, DateTime<Local>, Tz, BigDecimal/BigInt and containers above the stated sizes are outside the claim; the quantifier over type expressions is enumerated by the catalogue (depth <= 3), not solved"),
 "C02": ("§6.C02", "Translation validation of the derive macro per catalogue entry: the code the real macro generates for ~25 declarations (unit/named structs, three Option spellings, transient fields first/middle/last and in tuple variants, nested, recursive, enums incl. transient, sorted and case-sensitive-sorted constructors, and eight evolved declarations on the encode side) produces byte-for-byte the output of the hand-applied field-by-field procedure and decodes it back, for all field values.",
         "programs (declarations) are enumerated, not quantified; decoding of records with stored version >= 1 is outside (symbolic execution of AdtDeserializer::new does not finish); hashbrown replaced by an association list under cfg(kani)"),
 "C03": ("§6.C03", "Partial: (a) the real chunked writer of six evolved declarations (FieldAdded, FieldMadeOptional, FieldRemoved, FieldMadeTransient, two generations, evolved enum variant) emits exactly the reference header and chunk layout for all field values; (b) reader on stored version 0: default / specific error / wrap; extended enums read old data; (c) reader on stored version >= 1 as two kernels over the real functions: K1 AdtDeserializer::new maps a catalogue of concrete headers (older, same and newer reader) to exactly the header's chunk windows, made-optional positions and removed names and leaves the cursor after the last chunk; K2 read_field/read_optional_field from that state give the documented outcome table (unwrap / NonOptionalFieldSerializedAsNone / removed / window confinement), chunk bytes symbolic.",
         "whole-record decoding with stored version >= 1 is not executed (does not finish, DESIGN §2.4): the composition K1;K2 is an informal argument; histories and headers are the catalogue's"),
 "C04": ("§6.C04", "Byte-level conformance in both directions against the independent reference of the format (big-endian numbers, LEB128/zig-zag, tags, counts, byte arrays, tuples/records, enum indices, chrono/uuid layouts, evolution header on the encode side), incl. the unknown-length sequence form the Rust writer never emits. A symmetric change of writer and reader keeps round trips green and breaks both halves against the fixed oracle.",
         "reference model validated against the repository's pinned 14-byte Point vector only; decode of headers (stored version >= 1) outside"),
 "C05": ("§6.C05", "No panic, arithmetic overflow, out-of-bounds access or unbounded loop for every byte string up to the stated length on fixed-layout types, strings, byte containers, arrays, sequences (hostile length/count varints fully symbolic), the three input implementations' read/skip kernels with full-width symbolic counts, unknown enum constructor indices and the FieldPosition byte; agreement with the strict reference decoder is asserted in the same queries.",
         "dev-profile semantics (release wrap-around only via replay); byte strings above the stated lengths, records with stored version >= 1 (hostile headers) and read_compressed are outside; allocation sizes are not measured"),
 "C06": ("§6.C06", "Ok(v) implies the strict reference decoder yields v, on all byte strings within the C05 bounds (tags, counts, array counts, lengths); chunk-window confinement as a one-step inductive kernel over the real region operations (push one or two nested windows with symbolic bounds, one symbolic read): bytes returned lie inside the window, overrun is an error, pop restores the parent.",
         "whole tampered records with headers are outside: that AdtDeserializer::new derives the windows correctly from the header is not checked; splice/duplicate tamperings outside"),
 "C07": ("§6.C07", "For every catalogue type and shape, decoding from reference-encoding ++ two symbolic bytes returns the value and leaves exactly those two bytes readable, then end of input; arrays and vectors consume the unknown-length form in full; kernel K1: AdtDeserializer::new leaves the record cursor after the last chunk for older, same and newer readers (unknown chunks skipped in full); the varint round trip ends exactly at the encoded length.",
         "whole records with headers only through kernel K1 (catalogue of concrete headers); suffix length fixed at 2"),
 "C08": ("§6.C08", "For 18 catalogue types and all their shapes, every strict prefix of the reference encoding (cut points enumerated with concrete lengths, payload symbolic) decodes to Err; also an unknown-length sequence without its terminator and a record cut before the tag of a trailing optional field.",
         "stored version 0 only; truncation of derived enums, strings and sequences with more than two elements does not finish (tier=off)"),
 "C10": ("§6.C10", "Small: a user codec built on store_ref_or_object / try_read_ref (identity = heap address), labels symbolic: quick tier decides the one-node graph (encode == reference stream, decode rebuilds it), that on a fresh stream every non-zero object number is InvalidRefId for all 5-byte varints, and that object numbers count distinct objects rather than offers (offer x twice, then y is number 2); the thorough tier adds the two-node chain (distinct nodes stay distinct, no edge invented).",
         "streams with more than three store_ref calls do not finish (pointers stored in heap-allocated map entries): cycles/diamonds on 3 nodes and longer offer histories are kept as tier=off harnesses"),
 "C11": ("§6.C11", "Exactly the property's quantifier: all 2^32 u32 and all 2^32 i32 values through Vec<u8>, BytesMut and SizeCalculator outputs and SliceInput, OwnedInput and DeserializationContext inputs: bytes == reference formula, minimal length, continuation bits, read inverts write, cursor advanced by the length. No bound.",
         "none beyond the trusted base"),
 "C12": ("§6.C12", "One symbolic element list (n = 0, 2, 3; also zero-width elements) in the known-length and in the unknown-length form decodes identically as Vec, LinkedList and [E; n]; Vec, slice, array, LinkedList encode identically; inexact iterators (no upper bound; symbolic upper bound) yield the unknown-length form; byte containers (Vec<u8>, &[u8], [u8; n], Bytes) are interchangeable.",
         "hash/ordered set and map targets outside; element types u16, (u8,u8), Option<u8>"),
 "C13": ("§6.C13", "Constructor index = declaration position (or case-sensitive name order when sorted, also with a transient constructor that moves under sorting) byte-for-byte; data of E decodes under E extended by appended constructors to the corresponding value; every unknown index (every varint of 1-5 bytes >= n) and the index of a transient constructor decode to Err, never a panic.",
         "catalogue of enums; payload behind an unknown index is zero bytes"),
 "C14": ("§6.C14", "Values differing only in transient fields encode identically (encoder bytes equal the reference that ignores them, for all transient values); decoding sets the declared default (defaults chosen != Default::default()); transient constructors at first/middle/last position give the dedicated error with type and constructor name in both directions; a FieldMadeTransient history encodes, including a field made optional and later made transient (every value: Ok and bytes equal to the reference, through the harness's probe sink).",
         "the 'made optional, later made transient' history is outside the catalogue"),
 "C15": ("§6.C15", "Vec<u8>, BytesMut, serialize_to_bytes, serialize_to_byte_vec and a recording user output produce the reference bytes and SizeCalculator reports their count, for catalogue values; SliceInput, OwnedInput and DeserializationContext agree on the result of one symbolic primitive read (9 primitives, full-width symbolic count) after a symbolic skip over every buffer <= 6 bytes, and on where the input ends afterwards.",
         "one operation after a skip (programs of 2-3 operations do not finish: tier=off); sinks on six catalogue types in the quick tier"),
 "C17": ("§6.C17", "Every Unicode scalar value for char (Ok with the reference bytes iff <= U+FFFF, else UnsupportedCharacter); every exact size_hint and zero-width Vec/slice length > i32::MAX gives LengthTooLarge; transient constructors; FieldPosition byte for every (chunk, position); a failed encoding hands back no output; nothing panics.",
         "UnknownFieldReferenceInEvolutionStep and the 255-step limit outside"),
 "C18": ("§6.C18", "Sequential histories only: after an arbitrary prior encode call and an arbitrary prior decode call, encode/decode results equal the reference (which depends on the argument alone), repeated calls give the same bytes, a failed encoding does not affect the next call.",
         "thread interleavings and first-use lazy initialisation under contention are NOT covered (Kani has no concurrency; lazy_static is modelled sequentially); per-call restart of string ids does not finish (tier=off)"),
 "C19": ("§6.C19", "Input half: the three unsafe decode paths ([T; L], [u8; L], Vec<u8>) and try_read_ref run under CBMC's pointer checks on all byte strings within the C05 bounds and agree with the reference decoder. A safe-code lifetime-escape witness (reference to a scoped Box read back through try_read_ref) compiles and CBMC reports the dead-object dereference: recorded as a known finding.",
         "'every safe client program' is not a solver question; uninitialised reads are seen only through the differential assertion (-Z uninit-checks crashes this Kani)"),
}

NOT_APPLICABLE = [
 {"property_id": "C09", "reason": "deciding id agreement needs State::store_string on a sequence of writes and reads; CBMC does not constant-fold the niche-encoded StoreStringResult/Entry values and symbolic execution of two or three deduplicated writes of a symbolic string exceeds 1000 s / 14 GB, also with the context forgotten instead of dropped (DESIGN §10). Two single facts are checked elsewhere (removed-field name in a header: C02 e_v3; ids restart per call: C18) but do not amount to the property."},
 {"property_id": "C16", "reason": "write_compressed/read_compressed call flate2 -> miniz_oxide directly; neither deflating one byte nor inflating an empty payload leaves CBMC's symbolic execution in 600 s, and the generic Read impl cannot be stubbed without editing the functions under test (DESIGN §10)."},
]

m = {
 "version": 1,
 "setup_cmd": "./setup.sh",
 "hooks": {
   "guard": "cfg(kani) (set by every `cargo kani` build) for the map stand-in and the repr(u8) attributes; cfg(any(kani, desert_verif_hooks)) for the region wrappers",
   "enable": "cargo kani (defines cfg(kani)); native replay builds: RUSTFLAGS='--cfg desert_verif_hooks'",
   "baseline_off_cmd": "cd /repo && cargo test --workspace --no-fail-fast --offline",
   "source_commits": REPO_HOOK_COMMITS,
   "add_only": True,
 },
 "engines": [
   {"name": "kani-cbmc", "path": "harness/", "serves_properties": sorted(CHECKS), "kind_free_text": "Kani 0.68 proof harnesses (harness/src/c*.rs) over the real desert_core/desert_macro, CBMC 6.11 + CaDiCaL, driven by ./check"},
 ],
 "checks": [],
 "notes": "Technique family: solver-based checking of the real code. Every check is a set of CBMC queries; see DESIGN.md §0 for the verdict table and §2 for measured reach.",
 "not_applicable": NOT_APPLICABLE,
}
for pid in sorted(CHECKS):
    ref, text, note = CHECKS[pid]
    m["checks"].append({
        "property_id": pid,
        "quick_cmd": "./check %s --tier quick" % pid,
        "thorough_cmd": "./check %s --tier thorough" % pid,
        "evidence_file": "evidence/%s.json" % pid,
        "replay_cmd_template": "./check %s --replay {path}" % pid,
        "engine": "kani-cbmc",
        "level_claimed": {"category": "model_checking", "text": text, "design_ref": "DESIGN.md " + ref},
        "level_note": note + "; trusted: Kani/CBMC/CaDiCaL, std, bytes, chrono, uuid, the reference model; stubs: fmt::format, core::fmt::write; hooks: association-list maps, repr(u8) tags, lazy_static model",
        "technique": TECH,
    })
json.dump(m, open("/verif/MANIFEST.json", "w"), indent=1)
print("wrote MANIFEST.json with", len(m["checks"]), "checks")
