//! Model of the `lazy_static` crate used only by the verification harness crate
//! (`[patch.crates-io]` in /verif/harness/Cargo.toml). /repo itself keeps using the real crate.
//!
//! Under Kani the slot is a plain `Option<T>` that is filled on first access, sequentially
//! (Kani has no threads). Natively (replay of counterexamples, self-tests) a `Once` guards it.
use std::cell::UnsafeCell;

pub struct Slot<T> {
    value: UnsafeCell<Option<T>>,
    #[cfg(not(kani))]
    once: std::sync::Once,
}

unsafe impl<T: Sync> Sync for Slot<T> {}

impl<T> Slot<T> {
    pub const fn new() -> Self {
        Slot {
            value: UnsafeCell::new(None),
            #[cfg(not(kani))]
            once: std::sync::Once::new(),
        }
    }

    #[cfg(kani)]
    pub fn get(&'static self, init: fn() -> T) -> &'static T {
        unsafe {
            let slot = &mut *self.value.get();
            if slot.is_none() {
                *slot = Some(init());
            }
            match slot {
                Some(v) => &*(v as *const T),
                None => unreachable!(),
            }
        }
    }

    #[cfg(not(kani))]
    pub fn get(&'static self, init: fn() -> T) -> &'static T {
        self.once.call_once(|| unsafe {
            *self.value.get() = Some(init());
        });
        unsafe { (*self.value.get()).as_ref().unwrap() }
    }
}

#[macro_export]
macro_rules! lazy_static {
    () => {};
    ($(#[$attr:meta])* static ref $N:ident : $T:ty = $e:expr; $($t:tt)*) => {
        $crate::__lazy_static_one!(($(#[$attr])*) () $N : $T = $e);
        $crate::lazy_static!($($t)*);
    };
    ($(#[$attr:meta])* pub static ref $N:ident : $T:ty = $e:expr; $($t:tt)*) => {
        $crate::__lazy_static_one!(($(#[$attr])*) (pub) $N : $T = $e);
        $crate::lazy_static!($($t)*);
    };
    ($(#[$attr:meta])* pub ($($vis:tt)+) static ref $N:ident : $T:ty = $e:expr; $($t:tt)*) => {
        $crate::__lazy_static_one!(($(#[$attr])*) (pub ($($vis)+)) $N : $T = $e);
        $crate::lazy_static!($($t)*);
    };
}

#[macro_export]
#[doc(hidden)]
macro_rules! __lazy_static_one {
    (($(#[$attr:meta])*) ($($vis:tt)*) $N:ident : $T:ty = $e:expr) => {
        #[allow(missing_copy_implementations)]
        #[allow(non_camel_case_types)]
        #[allow(dead_code)]
        $(#[$attr])*
        $($vis)* struct $N { __private_field: () }
        #[doc(hidden)]
        #[allow(non_upper_case_globals)]
        $($vis)* static $N: $N = $N { __private_field: () };
        impl ::core::ops::Deref for $N {
            type Target = $T;
            fn deref(&self) -> &$T {
                fn __static_ref_initialize() -> $T { $e }
                static SLOT: $crate::Slot<$T> = $crate::Slot::new();
                SLOT.get(__static_ref_initialize)
            }
        }
    };
}
