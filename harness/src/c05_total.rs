//! C05 — decoding untrusted bytes is total; C06 — accepted input means what the format says
//! (the raw-buffer harnesses assert both: no panic/overflow/OOB *and* agreement with the strict
//! reference decoder); C04 converse: what the reference decoder accepts, desert accepts.
#![allow(unused_imports)]
use crate::catalogue::*;
use crate::checks::raw_check;
use crate::refmodel::{Model, Rd};
use crate::sym;
use desert_core::{BinaryDeserializer, BinaryInput, DeserializationContext, OwnedInput, SliceInput};

// ------------------------------------------------------------------ layer 1: input kernels

proof! {
    //@ props=C05,C15 tier=quick bounds=SliceInput::read_bytes/skip/read_u8;buffer<=8;pos,count:any-usize
    fn c05_kernel_slice() unwind(10) {
        let data: [u8; 8] = sym::bytes();
        let len = sym::index_below(9);
        let pos = sym::index_below(len + 1);
        let count = sym::usize_();
        let mut inp = SliceInput { data: &data[..len], pos };
        match sym::below(3) {
            0 => match inp.read_bytes(count) {
                Ok(s) => {
                    assert!(count <= len - pos, "read_bytes accepted a count that does not fit");
                    assert!(s.len() == count);
                    assert!(count == 0 || s[0] == data[pos]);
                    assert!(inp.pos == pos + count);
                    cover!(count == len - pos && count > 0);
                }
                Err(e) => {
                    assert!(count > len - pos, "read_bytes rejected a count that fits");
                    cover!(count == usize::MAX);
                    std::mem::forget(e);
                }
            },
            1 => match inp.skip(count) {
                Ok(()) => {
                    assert!(count <= len - pos, "skip accepted a count that does not fit");
                    assert!(inp.pos == pos + count);
                }
                Err(e) => {
                    assert!(count > len - pos, "skip rejected a count that fits");
                    std::mem::forget(e);
                }
            },
            _ => match inp.read_u8() {
                Ok(b) => {
                    assert!(pos < len && b == data[pos] && inp.pos == pos + 1);
                }
                Err(e) => {
                    assert!(pos == len);
                    std::mem::forget(e);
                }
            },
        }
    }
}

proof! {
    //@ props=C05,C15 tier=quick bounds=OwnedInput::read_bytes/skip/read_u8;buffer<=8;pos<=len;count:any-usize
    fn c05_kernel_owned() unwind(10) {
        let data: [u8; 8] = sym::bytes();
        let len = sym::index_below(9);
        let mut v = data.to_vec();
        v.truncate(len);
        let pos = sym::index_below(9);
        sym::assume(pos <= len);
        let count = sym::usize_();
        let mut inp = OwnedInput::new(v);
        match inp.skip(pos) {
            Ok(()) => {}
            Err(e) => { std::mem::forget(e); assert!(false, "skip within the buffer failed"); }
        }
        match sym::below(3) {
            0 => match inp.read_bytes(count) {
                Ok(s) => {
                    assert!(count <= len - pos, "read_bytes accepted a count that does not fit");
                    assert!(s.len() == count);
                    assert!(count == 0 || s[0] == data[pos]);
                }
                Err(e) => {
                    assert!(count > len - pos, "read_bytes rejected a count that fits");
                    std::mem::forget(e);
                }
            },
            1 => match inp.skip(count) {
                Ok(()) => assert!(count <= len - pos, "skip accepted a count that does not fit"),
                Err(e) => {
                    assert!(count > len - pos, "skip rejected a count that fits");
                    std::mem::forget(e);
                }
            },
            _ => match inp.read_u8() {
                Ok(b) => assert!(pos < len && b == data[pos]),
                Err(e) => {
                    assert!(pos == len);
                    std::mem::forget(e);
                }
            },
        }
        std::mem::forget(inp);
    }
}

proof! {
    //@ props=C05,C15 tier=quick bounds=DeserializationContext(top-level)::read_bytes/skip/read_u8;buffer<=8;pos<=len;count:any-usize
    fn c05_kernel_ctx() unwind(10) {
        let data: [u8; 8] = sym::bytes();
        let len = sym::index_below(9);
        let pos = sym::index_below(9);
        sym::assume(pos <= len);
        let count = sym::usize_();
        let mut inp = DeserializationContext::new(&data[..len]);
        match inp.skip(pos) {
            Ok(()) => {}
            Err(e) => { std::mem::forget(e); assert!(false, "skip within the buffer failed"); }
        }
        match sym::below(3) {
            0 => match inp.read_bytes(count) {
                Ok(s) => {
                    assert!(count <= len - pos, "read_bytes accepted a count that does not fit");
                    assert!(s.len() == count);
                    assert!(count == 0 || s[0] == data[pos]);
                }
                Err(e) => {
                    assert!(count > len - pos, "read_bytes rejected a count that fits");
                    std::mem::forget(e);
                }
            },
            1 => match inp.skip(count) {
                Ok(()) => assert!(count <= len - pos, "skip accepted a count that does not fit"),
                Err(e) => {
                    assert!(count > len - pos, "skip rejected a count that fits");
                    std::mem::forget(e);
                }
            },
            _ => match inp.read_u8() {
                Ok(b) => assert!(pos < len && b == data[pos]),
                Err(e) => {
                    assert!(pos == len);
                    std::mem::forget(e);
                }
            },
        }
        std::mem::forget(inp);
    }
}

// ------------------------------------------------------------------ layer 2: every byte string <= N

macro_rules! raw_all {
    ($name:ident, $t:ty, $n:expr, $u:expr, $tier:ident) => {
        proof! {
            fn $name() unwind($u) {
                let data: [u8; $n] = sym::bytes();
                let len = sym::index_below($n + 1);
                raw_check::<$t>(&data[..len], true);
                cover!(len == $n);
            }
        }
    };
}

//@ props=C05,C06,C04:t tier=quick bounds=every-byte-string<=N,length-symbolic
// (the line above documents the group; each harness carries its own tag below)

//@ props=C05,C06,C04:t tier=quick bounds=u8:all-byte-strings<=2
raw_all!(c05_raw_u8, u8, 2, 4, quick);
//@ props=C05,C06,C04:t tier=quick bounds=u16:all-byte-strings<=3
raw_all!(c05_raw_u16, u16, 3, 4, quick);
//@ props=C05,C06,C04:t tier=thorough bounds=i32:all-byte-strings<=5
raw_all!(c05_raw_i32, i32, 5, 4, thorough);
//@ props=C05,C06,C04:t tier=quick bounds=u64:all-byte-strings<=9
raw_all!(c05_raw_u64, u64, 9, 4, quick);
//@ props=C05,C06,C04:t tier=thorough bounds=i128:all-byte-strings<=17
raw_all!(c05_raw_i128, i128, 17, 4, thorough);
//@ props=C05,C06,C04:t tier=thorough bounds=f64:all-byte-strings<=9
raw_all!(c05_raw_f64, f64, 9, 4, thorough);
//@ props=C05,C06,C04:t tier=quick bounds=bool:all-byte-strings<=2
raw_all!(c05_raw_bool, bool, 2, 4, quick);
//@ props=C05,C06,C04:t tier=quick bounds=char:all-byte-strings<=3
raw_all!(c05_raw_char, char, 3, 4, quick);
//@ props=C05,C06,C04:t tier=quick bounds=Option<u16>:all-byte-strings<=4
raw_all!(c05_raw_opt_u16, Option<u16>, 4, 4, quick);
//@ props=C05,C06,C04:t tier=quick bounds=Result<u8,u16>:all-byte-strings<=4
raw_all!(c05_raw_res, Result<u8, u16>, 4, 4, quick);
//@ props=C05,C06,C04:t tier=quick bounds=Option<Option<bool>>:all-byte-strings<=4
raw_all!(c05_raw_opt_opt, Option<Option<bool>>, 4, 4, quick);
//@ props=C05,C06,C04:t tier=quick bounds=Duration:all-byte-strings<=12
raw_all!(c05_raw_duration, std::time::Duration, 12, 4, quick);
//@ props=C05,C06,C04:t tier=quick bounds=Weekday:all-byte-strings<=2
raw_all!(c05_raw_weekday, chrono::Weekday, 2, 4, quick);
//@ props=C05,C06,C04:t tier=quick bounds=Month:all-byte-strings<=2
raw_all!(c05_raw_month, chrono::Month, 2, 4, quick);
//@ props=C05,C06,C04:t tier=quick bounds=FixedOffset:all-byte-strings<=6
raw_all!(c05_raw_fixed_offset, chrono::FixedOffset, 6, 8, quick);
//@ props=C05,C06,C04:t tier=off bounds=DateTime<Utc>:all-byte-strings<=12 cap=900
raw_all!(c05_raw_datetime_utc, chrono::DateTime<chrono::Utc>, 12, 4, quick);
//@ props=C05,C06,C04:t tier=thorough bounds=NaiveDate:all-byte-strings<=7 cap=1800
raw_all!(c05_raw_naive_date, chrono::NaiveDate, 7, 8, thorough);
//@ props=C05,C06,C04:t tier=thorough bounds=NaiveTime:all-byte-strings<=8 cap=1800
raw_all!(c05_raw_naive_time, chrono::NaiveTime, 8, 8, thorough);
//@ props=C05,C06,C04:t tier=quick bounds=Uuid:all-byte-strings<=16
raw_all!(c05_raw_uuid, uuid::Uuid, 16, 18, quick);

proof! {
    //@ props=C05,C06,C17 tier=quick bounds=FieldPosition:all-byte-strings<=1;to_byte:all(chunk,position)
    fn c05_raw_field_position() unwind(4) {
        use desert_core::adt::FieldPosition;
        let data: [u8; 1] = sym::bytes();
        let len = sym::index_below(2);
        match desert_core::deserialize::<FieldPosition>(&data[..len]) {
            Ok(p) => {
                assert!(len == 1);
                let b = data[0] as i8;
                // position byte: -index for chunk 0, chunk number otherwise (§4.4)
                if b <= 0 {
                    assert!(p.chunk == 0 && p.position as i32 == -(b as i32), "position byte decoded wrongly");
                } else {
                    assert!(p.chunk == b as u8 && p.position == 0);
                }
                cover!(b == i8::MIN);
            }
            Err(e) => {
                assert!(len == 0);
                std::mem::forget(e);
            }
        }
    }
}

// ------------------------------------------------------------------ layer 3: hostile prefixes

/// buffer = 5 symbolic bytes of length/count varint, then `$rest` symbolic bytes; total length symbolic
macro_rules! raw_prefixed {
    ($name:ident, $t:ty, $n:expr, $u:expr) => {
        proof! {
            fn $name() unwind($u) {
                let data: [u8; $n] = sym::bytes();
                let len = sym::index_below($n + 1);
                raw_check::<$t>(&data[..len], true);
                cover!(len == $n);
            }
        }
    };
}

//@ props=C05,C06,C04:t,C19 tier=off bounds=String:all-byte-strings<=3 cap=900
raw_prefixed!(c05_hostile_string3, String, 3, 5);
//@ props=C05,C06,C04:t,C19 tier=off bounds=String:all-byte-strings<=7(full-5-byte-length-varint) cap=2400
raw_prefixed!(c05_hostile_string7, String, 7, 9);
//@ props=C05,C06,C04:t,C19 tier=quick bounds=Vec<u8>:all-byte-strings<=3 cap=900
raw_prefixed!(c05_hostile_vecu8_3, Vec<u8>, 3, 5);
//@ props=C05,C06,C04:t,C19 tier=thorough bounds=Vec<u8>:all-byte-strings<=7 cap=2400
raw_prefixed!(c05_hostile_vecu8_7, Vec<u8>, 7, 9);
//@ props=C05,C06,C04:t,C19 tier=quick bounds=Bytes:all-byte-strings<=3 cap=900
raw_prefixed!(c05_hostile_bytes3, bytes::Bytes, 3, 5);
//@ props=C05,C06,C04:t,C19 tier=quick bounds=[u8;2]:all-byte-strings<=4 cap=900
raw_prefixed!(c05_hostile_arru8_2, [u8; 2], 4, 6);
//@ props=C05,C06,C04:t,C19 tier=off bounds=[u16;2]:all-byte-strings<=5 cap=900
raw_prefixed!(c05_hostile_arru16_2, [u16; 2], 5, 7);
//@ props=C05,C06,C04:t,C19 tier=off bounds=[u16;0]:all-byte-strings<=2 cap=900
raw_prefixed!(c05_hostile_arru16_0, [u16; 0], 2, 4);
//@ props=C05,C06,C04:t tier=thorough bounds=Vec<u16>:all-byte-strings<=3 cap=900
raw_prefixed!(c05_hostile_vecu16_3, Vec<u16>, 3, 6);
//@ props=C05,C06,C04:t tier=off bounds=Vec<u16>:all-byte-strings<=5 cap=2400
raw_prefixed!(c05_hostile_vecu16_5, Vec<u16>, 5, 8);
//@ props=C05,C06,C04:t tier=thorough bounds=LinkedList<u8>:all-byte-strings<=3 cap=900
raw_prefixed!(c05_hostile_listu8_3, std::collections::LinkedList<u8>, 3, 6);

proof! {
    //@ props=C05 tier=thorough bounds=termination;Vec<()>:count-varint-symbolic(5-bytes);iterations<=input-length+2
    fn c05_termination_vec_unit() unwind(8) {
        // zero-width elements: the loop must still be bounded by the bytes consumed
        let data: [u8; 5] = sym::bytes();
        let len = sym::index_below(6);
        let mut rd = Rd::new(&data[..len]);
        let count = rd.vari();
        // counts 0..=5 legitimately loop that often; everything else must not loop at all
        sym::assume(matches!(count, Some(c) if c < -1));
        match desert_core::deserialize::<Vec<()>>(&data[..len]) {
            Ok(v) => {
                std::mem::forget(v);
                assert!(false, "a negative element count was accepted");
            }
            Err(e) => std::mem::forget(e),
        }
    }
}

proof! {
    //@ props=C05,C06 tier=off bounds=String:negative-length(5-byte-varint-symbolic)+<=2-bytes
    fn c05_string_negative_length() unwind(8) {
        let data: [u8; 7] = sym::bytes();
        let len = sym::index_below(8);
        let mut rd = Rd::new(&data[..len]);
        let n = rd.vari();
        sym::assume(matches!(n, Some(c) if c < 0));
        match desert_core::deserialize::<String>(&data[..len]) {
            Ok(v) => {
                std::mem::forget(v);
                assert!(false, "a negative string length was accepted");
            }
            Err(e) => std::mem::forget(e),
        }
    }
}

// ------------------------------------------------------------------ derived enums: constructor index

macro_rules! ctor_index {
    ($name:ident, $t:ty, $nvariants:expr) => {
        proof! {
            v0only fn $name() unwind(8) {
                // 0 (enum record version) ++ constructor index: a fully symbolic varint of up to 5 bytes
                // ++ zeros (version byte 0 and a zero payload wherever the varint ends)
                // a k-byte varint (k symbolic in 1..=5, payload bits symbolic) followed by zeros only
                let v: [u8; 5] = sym::bytes();
                let k = sym::below(5) as usize + 1;
                let mut w = [0u8; 5];
                let mut i = 0;
                while i < 5 {
                    w[i] = if i + 1 < k { v[i] | 0x80 } else if i + 1 == k { v[i] & 0x7f } else { 0 };
                    i += 1;
                }
                let data: [u8; 12] = [0, w[0], w[1], w[2], w[3], w[4], 0, 0, 0, 0, 0, 0];
                let mut rd = Rd::new(&data[1..]);
                let idx = rd.varu();
                sym::assume(matches!(idx, Some(i) if i >= $nvariants));
                match desert_core::deserialize::<$t>(&data) {
                    Ok(v) => {
                        std::mem::forget(v);
                        assert!(false, "an unknown constructor index was decoded into a value");
                    }
                    Err(e) => {
                        cover!(idx == Some(257));
                        cover!(idx == Some(u32::MAX));
                        cover!(idx == Some($nvariants));
                        std::mem::forget(e);
                    }
                }
            }
        }
    };
}

//@ props=C05,C13 tier=quick bounds=E3:every-constructor-index>=3(all-varints-up-to-5-bytes);zero-payload cap=900
ctor_index!(c13_unknown_index_e3, E3, 3);
//@ props=C05,C13 tier=thorough bounds=ES(sorted):every-constructor-index>=3(all-varints-up-to-5-bytes);zero-payload cap=2400
ctor_index!(c13_unknown_index_es, ES, 3);
//@ props=C05,C13 tier=thorough bounds=ETm(transient-in-the-middle):every-constructor-index>=3;zero-payload cap=2400
ctor_index!(c13_unknown_index_etm, ETm, 3);


proof! {
    //@ props=C06,C05,C12 tier=quick bounds=unknown-length-form-of-Vec<u16>:marker,-1;element-tags-and-terminator-symbolic(5-bytes:01,t1,hi,lo,t2) cap=900
    fn c06_unknown_form_tags() unwind(8) {
        let mut data: [u8; 5] = sym::bytes();
        data[0] = 0x01; // zig-zag(-1): unknown-length form
        raw_check::<Vec<u16>>(&data, true);
        cover!(data[1] == 1 && data[4] == 0);
        cover!(data[1] == 2);
    }
}


proof! {
    //@ props=C05,C11,C15 tier=quick bounds=read_var_u32/read_var_i32:every-input-of-up-to-6-bytes(non-canonical-and-over-long-forms-included);3-input-implementations cap=900
    fn c05_read_var_all_inputs() unwind(10) {
        let data: [u8; 6] = sym::bytes();
        let len = sym::index_below(7);
        let mut rd = Rd::new(&data[..len]);
        let expected = rd.varu();
        let mut a = SliceInput::new(&data[..len]);
        match a.read_var_u32() {
            Ok(v) => assert!(expected == Some(v) && a.pos == rd.pos, "read_var_u32 disagrees with the format on some input"),
            Err(e) => { assert!(expected.is_none()); std::mem::forget(e); }
        }
        let mut v = data.to_vec();
        v.truncate(len);
        let mut b = OwnedInput::new(v);
        match b.read_var_u32() {
            Ok(v) => assert!(expected == Some(v)),
            Err(e) => { assert!(expected.is_none()); std::mem::forget(e); }
        }
        let mut c = DeserializationContext::new(&data[..len]);
        let mut rd2 = Rd::new(&data[..len]);
        let expected_i = rd2.vari();
        match c.read_var_i32() {
            Ok(v) => assert!(expected_i == Some(v), "read_var_i32 disagrees with the format on some input"),
            Err(e) => { assert!(expected_i.is_none()); std::mem::forget(e); }
        }
        cover!(len == 6 && data[4] & 0x80 != 0);
        std::mem::forget(b);
        std::mem::forget(c);
    }
}

proof! {
    //@ props=C08 tier=quick bounds=TailOpt{a:u8,b:Option<u8>}:encoding-cut-right-before-the-tag-of-the-trailing-optional-field cap=900
    fn c08_trunc_trailing_option() unwind(6) {
        let a = sym::u8_();
        let data = [0u8, a];
        match desert_core::deserialize::<TailOpt>(&data) {
            Ok(v) => { std::mem::forget(v); assert!(false, "a record cut before the tag of its trailing optional field was decoded"); }
            Err(e) => { cover!(true); std::mem::forget(e); }
        }
    }
}
