//! Source of "symbolic" values.
//!
//! * under Kani every `any*` is a `kani::any()` – a free variable of the SAT formula;
//! * natively the same harness bodies run with values taken either from a replay file
//!   (`VERIF_REPLAY_BYTES`: the flattened byte stream of a Kani counterexample, see /verif/check)
//!   or from a xorshift generator (smoke run that validates the reference model and the harness
//!   logic against the real, un-hooked build; never the deciding step of any check).
#![allow(dead_code)]

#[cfg(kani)]
mod imp {
    pub fn bytes<const N: usize>() -> [u8; N] {
        kani::any()
    }
    pub fn assume(c: bool) {
        kani::assume(c)
    }
}

#[cfg(not(kani))]
mod imp {
    use std::cell::RefCell;

    pub enum Source {
        Replay { bytes: Vec<u8>, pos: usize },
        Random(u64),
    }

    thread_local! {
        pub static SRC: RefCell<Source> = RefCell::new(Source::Random(0x9E3779B97F4A7C15));
    }

    pub struct Rejected;

    fn next_u8(src: &mut Source) -> u8 {
        match src {
            Source::Replay { bytes, pos } => {
                let v = bytes.get(*pos).copied().unwrap_or(0);
                *pos += 1;
                v
            }
            Source::Random(s) => {
                *s ^= *s << 13;
                *s ^= *s >> 7;
                *s ^= *s << 17;
                let r = (*s >> 24) as u32;
                // bias towards boundary bytes: the interesting values of this code base
                match r % 8 {
                    0 => 0,
                    1 => 0xff,
                    2 => 0x80,
                    3 => 0x7f,
                    4 => (r >> 8) as u8 & 3,
                    _ => (r >> 8) as u8,
                }
            }
        }
    }

    pub fn bytes<const N: usize>() -> [u8; N] {
        SRC.with(|s| {
            let mut s = s.borrow_mut();
            let mut out = [0u8; N];
            for b in out.iter_mut() {
                *b = next_u8(&mut s);
            }
            out
        })
    }

    pub fn assume(c: bool) {
        if !c {
            std::panic::panic_any(Rejected);
        }
    }
}

pub use imp::assume;
#[cfg(not(kani))]
pub use imp::{Rejected, Source, SRC};

pub fn bytes<const N: usize>() -> [u8; N] {
    imp::bytes::<N>()
}
pub fn u8_() -> u8 {
    bytes::<1>()[0]
}
pub fn i8_() -> i8 {
    u8_() as i8
}
pub fn bool_() -> bool {
    let b = u8_();
    assume(b < 2);
    b == 1
}
pub fn u16_() -> u16 {
    u16::from_le_bytes(bytes())
}
pub fn i16_() -> i16 {
    i16::from_le_bytes(bytes())
}
pub fn u32_() -> u32 {
    u32::from_le_bytes(bytes())
}
pub fn i32_() -> i32 {
    i32::from_le_bytes(bytes())
}
pub fn u64_() -> u64 {
    u64::from_le_bytes(bytes())
}
pub fn i64_() -> i64 {
    i64::from_le_bytes(bytes())
}
pub fn u128_() -> u128 {
    u128::from_le_bytes(bytes())
}
pub fn i128_() -> i128 {
    i128::from_le_bytes(bytes())
}
pub fn usize_() -> usize {
    u64_() as usize
}
pub fn char_() -> char {
    let v = u32_();
    assume(v <= 0xD7FF || (v >= 0xE000 && v <= 0x10FFFF));
    match char::from_u32(v) {
        Some(c) => c,
        None => {
            assume(false);
            'x'
        }
    }
}
/// A char whose UTF-8 encoding has exactly `w` bytes (1..=4).
pub fn char_of_width(w: usize) -> char {
    #[cfg(not(kani))]
    if SRC.with(|s| matches!(*s.borrow(), Source::Random(_))) {
        let v = u32_();
        let c = match w {
            1 => v % 0x80,
            2 => 0x80 + v % (0x800 - 0x80),
            3 => {
                let x = 0x800 + v % (0x10000 - 0x800);
                if (0xD800..=0xDFFF).contains(&x) { 0x4E2D } else { x }
            }
            _ => 0x10000 + v % (0x110000 - 0x10000),
        };
        return char::from_u32(c).unwrap();
    }
    let c = char_();
    assume(c.len_utf8() == w);
    c
}
/// A value in `0..n` (n >= 1).
pub fn below(n: u8) -> u8 {
    let v = u8_();
    #[cfg(not(kani))]
    let v = if SRC.with(|s| matches!(*s.borrow(), Source::Random(_))) { v % n } else { v };
    assume(v < n);
    v
}

/// A value in `lo..=hi`.
pub fn range_i64(lo: i64, hi: i64) -> i64 {
    let v = i64_();
    #[cfg(not(kani))]
    let v = if SRC.with(|s| matches!(*s.borrow(), Source::Random(_))) {
        let span = (hi as i128 - lo as i128 + 1) as u128;
        (lo as i128 + ((v as u64 as u128) % span) as i128) as i64
    } else {
        v
    };
    assume(v >= lo && v <= hi);
    v
}

/// A value in `0..n` (n >= 1), full width.
pub fn index_below(n: usize) -> usize {
    let v = usize_();
    #[cfg(not(kani))]
    let v = if SRC.with(|s| matches!(*s.borrow(), Source::Random(_))) { v % n } else { v };
    assume(v < n);
    v
}

pub fn stub_format(_: std::fmt::Arguments<'_>) -> String {
    String::new()
}

pub fn stub_fmt_write(_out: &mut dyn std::fmt::Write, _args: std::fmt::Arguments<'_>) -> std::fmt::Result {
    Ok(())
}

#[macro_export]
macro_rules! cover {
    ($c:expr) => {{
        #[cfg(kani)]
        kani::cover!($c);
        #[cfg(not(kani))]
        {
            let _ = $c;
        }
    }};
}

/// Stand-in for `AdtDeserializer::new` in harnesses whose inputs only contain records with stored
/// version 0: the real function is never called on such inputs, and the stub *asserts* that (so a
/// change that makes it reachable is reported, not hidden). It keeps CBMC from symbolically
/// executing the header parser on the infeasible continuations it explores after a failed read.
pub fn stub_adt_new<'a: 'a, 'b: 'b, 'c: 'c>(
    _metadata: &'a desert_core::adt::AdtMetadata,
    _context: &'b mut desert_core::DeserializationContext<'c>,
    _stored_version: u8,
) -> desert_core::Result<desert_core::adt::AdtDeserializer<'a, 'b, 'c>> {
    assert!(false, "AdtDeserializer::new reached on data whose records all have stored version 0");
    Err(desert_core::Error::InputEndedUnexpectedly)
}

/// Declares a harness: a Kani proof under `cargo kani`, an ordinary `#[test]` natively.
/// `v0only` additionally applies `stub_adt_new`.
#[macro_export]
macro_rules! proof {
    ($(#[$m:meta])* fn $name:ident() unwind($u:expr) $body:block) => {
        $(#[$m])*
        #[cfg(kani)]
        #[kani::proof]
        #[kani::unwind($u)]
        #[kani::stub(std::fmt::format, $crate::sym::stub_format)]
        #[kani::stub(core::fmt::write, $crate::sym::stub_fmt_write)]
        pub fn $name() $body

        #[cfg(all(not(kani), test))]
        #[test]
        fn $name() {
            $crate::sym::native_run(stringify!($name), || $body)
        }
    };
    ($(#[$m:meta])* v0only fn $name:ident() unwind($u:expr) $body:block) => {
        $(#[$m])*
        #[cfg(kani)]
        #[kani::proof]
        #[kani::unwind($u)]
        #[kani::stub(std::fmt::format, $crate::sym::stub_format)]
        #[kani::stub(core::fmt::write, $crate::sym::stub_fmt_write)]
        #[kani::stub(desert_core::adt::AdtDeserializer::new, $crate::sym::stub_adt_new)]
        pub fn $name() $body

        #[cfg(all(not(kani), test))]
        #[test]
        fn $name() {
            $crate::sym::native_run(stringify!($name), || $body)
        }
    };
}

/// Native driver of a harness body: one replayed run, or `VERIF_NATIVE_ITERS` random runs.
#[cfg(not(kani))]
pub fn native_run(name: &str, f: impl Fn() + std::panic::RefUnwindSafe) {
    if let Ok(spec) = std::env::var("VERIF_REPLAY_BYTES") {
        let bytes: Vec<u8> = spec
            .split(',')
            .filter(|s| !s.trim().is_empty())
            .map(|s| s.trim().parse::<u8>().expect("byte"))
            .collect();
        SRC.with(|s| *s.borrow_mut() = Source::Replay { bytes, pos: 0 });
        match std::panic::catch_unwind(|| f()) {
            Ok(()) => println!("REPLAY-OK {name}"),
            Err(e) => {
                if e.downcast_ref::<Rejected>().is_some() {
                    println!("REPLAY-REJECTED {name}");
                } else {
                    std::panic::resume_unwind(e);
                }
            }
        }
        return;
    }
    let iters: u64 = std::env::var("VERIF_NATIVE_ITERS")
        .ok()
        .and_then(|s| s.parse().ok())
        .unwrap_or(300);
    let seed0: u64 = std::env::var("VERIF_SEED")
        .ok()
        .and_then(|s| s.parse().ok())
        .unwrap_or(1);
    static HOOK: std::sync::Once = std::sync::Once::new();
    HOOK.call_once(|| {
        let prev = std::panic::take_hook();
        std::panic::set_hook(Box::new(move |info| {
            if info.payload().downcast_ref::<Rejected>().is_none() {
                prev(info);
            }
        }));
    });
    let mut accepted = 0u64;
    for i in 0..iters {
        let seed = (seed0.wrapping_mul(0x9E3779B97F4A7C15) ^ (i + 1).wrapping_mul(0xD1B54A32D192ED03)) | 1;
        SRC.with(|s| *s.borrow_mut() = Source::Random(seed));
        match std::panic::catch_unwind(|| f()) {
            Ok(()) => accepted += 1,
            Err(e) => {
                if e.downcast_ref::<Rejected>().is_none() {
                    eprintln!("native smoke run of {name} failed at iteration {i} (seed {seed})");
                    std::panic::resume_unwind(e);
                }
            }
        }
    }
    assert!(accepted > 0, "native smoke run of {name}: every sample was rejected by an assumption");
}
