//! Declarations compiled through the *real* derive macro, each with a hand-written reference
//! codec (`Model`) that applies the documented field-by-field procedure (DESIGN.md §4.4, §6.C02).
//! The reference side never calls AdtSerializer/AdtDeserializer.
#![allow(dead_code)]

use crate::desert;
use crate::refmodel::{dec_v0, Buf, Model, Rd, Shape};
use crate::sym;
use desert_macro::BinaryCodec;

// ------------------------------------------------------------------ structs, no evolution steps

#[derive(BinaryCodec)]
pub struct Unit0;

impl Model for Unit0 {
    fn arb(_sh: &mut Shape) -> Self {
        Unit0
    }
    fn enc(&self, b: &mut Buf) {
        b.u8(0);
    }
    fn dec(r: &mut Rd) -> Option<Self> {
        dec_v0(r)?;
        Some(Unit0)
    }
    fn same(&self, _o: &Self) -> bool {
        true
    }
}

#[derive(BinaryCodec)]
pub struct P2 {
    pub a: u8,
    pub b: u16,
}

impl Model for P2 {
    fn arb(sh: &mut Shape) -> Self {
        P2 { a: u8::arb(sh), b: u16::arb(sh) }
    }
    fn enc(&self, b: &mut Buf) {
        b.u8(0);
        self.a.enc(b);
        self.b.enc(b);
    }
    fn dec(r: &mut Rd) -> Option<Self> {
        dec_v0(r)?;
        Some(P2 { a: u8::dec(r)?, b: u16::dec(r)? })
    }
    fn same(&self, o: &Self) -> bool {
        self.a == o.a && self.b == o.b
    }
}

/// the three spellings of `Option` the macro recognises by name
#[derive(BinaryCodec)]
pub struct Opts {
    pub x: Option<u8>,
    pub y: std::option::Option<u16>,
    pub z: core::option::Option<bool>,
}

impl Model for Opts {
    fn arb(sh: &mut Shape) -> Self {
        Opts { x: Model::arb(sh), y: Model::arb(sh), z: Model::arb(sh) }
    }
    fn enc(&self, b: &mut Buf) {
        b.u8(0);
        self.x.enc(b);
        self.y.enc(b);
        self.z.enc(b);
    }
    fn dec(r: &mut Rd) -> Option<Self> {
        dec_v0(r)?;
        Some(Opts { x: Model::dec(r)?, y: Model::dec(r)?, z: Model::dec(r)? })
    }
    fn same(&self, o: &Self) -> bool {
        self.x.same(&o.x) && self.y.same(&o.y) && self.z.same(&o.z)
    }
}

// transient fields: defaults differ from `Default::default()` so that "written and read back"
// is distinguishable from "not written". `same(self, decoded)` demands the default in `decoded`.

#[derive(BinaryCodec)]
pub struct TrFirst {
    #[transient(7u8)]
    pub t: u8,
    pub a: u16,
}

impl Model for TrFirst {
    fn arb(sh: &mut Shape) -> Self {
        TrFirst { t: u8::arb(sh), a: u16::arb(sh) }
    }
    fn enc(&self, b: &mut Buf) {
        b.u8(0);
        self.a.enc(b);
    }
    fn dec(r: &mut Rd) -> Option<Self> {
        dec_v0(r)?;
        Some(TrFirst { t: 7, a: u16::dec(r)? })
    }
    fn same(&self, o: &Self) -> bool {
        self.a == o.a && o.t == 7
    }
}

#[derive(BinaryCodec)]
pub struct TrMid {
    pub a: u8,
    #[transient(0x55u8)]
    pub t: u8,
    pub b: u8,
}

impl Model for TrMid {
    fn arb(sh: &mut Shape) -> Self {
        TrMid { a: u8::arb(sh), t: u8::arb(sh), b: u8::arb(sh) }
    }
    fn enc(&self, b: &mut Buf) {
        b.u8(0);
        self.a.enc(b);
        self.b.enc(b);
    }
    fn dec(r: &mut Rd) -> Option<Self> {
        dec_v0(r)?;
        Some(TrMid { a: u8::dec(r)?, t: 0x55, b: u8::dec(r)? })
    }
    fn same(&self, o: &Self) -> bool {
        self.a == o.a && self.b == o.b && o.t == 0x55
    }
}

#[derive(BinaryCodec)]
pub struct TrLast {
    pub a: u16,
    #[transient(Some(9u8))]
    pub t: Option<u8>,
}

impl Model for TrLast {
    fn arb(sh: &mut Shape) -> Self {
        TrLast { a: u16::arb(sh), t: Model::arb(sh) }
    }
    fn enc(&self, b: &mut Buf) {
        b.u8(0);
        self.a.enc(b);
    }
    fn dec(r: &mut Rd) -> Option<Self> {
        dec_v0(r)?;
        Some(TrLast { a: u16::dec(r)?, t: Some(9) })
    }
    fn same(&self, o: &Self) -> bool {
        self.a == o.a && o.t == Some(9)
    }
}

#[derive(BinaryCodec)]
pub struct Outer {
    pub p: P2,
    pub q: Option<P2>,
    pub z: u8,
}

impl Model for Outer {
    fn arb(sh: &mut Shape) -> Self {
        Outer { p: Model::arb(sh), q: Model::arb(sh), z: u8::arb(sh) }
    }
    fn enc(&self, b: &mut Buf) {
        b.u8(0);
        self.p.enc(b);
        self.q.enc(b);
        self.z.enc(b);
    }
    fn dec(r: &mut Rd) -> Option<Self> {
        dec_v0(r)?;
        Some(Outer { p: Model::dec(r)?, q: Model::dec(r)?, z: u8::dec(r)? })
    }
    fn same(&self, o: &Self) -> bool {
        self.p.same(&o.p) && self.q.same(&o.q) && self.z == o.z
    }
}

/// recursion through Option<Box<Self>>, depth <= 3 (depth is a shape choice)
#[derive(BinaryCodec)]
pub struct Rec {
    pub v: u8,
    pub next: Option<Box<Rec>>,
}

impl Rec {
    fn arb_depth(sh: &mut Shape, left: u8) -> Self {
        let v = u8::arb(sh);
        let next = if left > 0 && sh.choice(2) == 1 {
            Some(Box::new(Rec::arb_depth(sh, left - 1)))
        } else {
            None
        };
        Rec { v, next }
    }
    fn dec_depth(r: &mut Rd, left: u8) -> Option<Self> {
        dec_v0(r)?;
        let v = u8::dec(r)?;
        let next = match r.u8()? {
            0 => None,
            1 => {
                if left == 0 {
                    return None;
                }
                Some(Box::new(Rec::dec_depth(r, left - 1)?))
            }
            _ => return None,
        };
        Some(Rec { v, next })
    }
}

impl Model for Rec {
    fn arb(sh: &mut Shape) -> Self {
        Rec::arb_depth(sh, 2)
    }
    fn enc(&self, b: &mut Buf) {
        b.u8(0);
        self.v.enc(b);
        match &self.next {
            None => b.u8(0),
            Some(n) => {
                b.u8(1);
                n.enc(b);
            }
        }
    }
    fn dec(r: &mut Rd) -> Option<Self> {
        Rec::dec_depth(r, 3)
    }
    fn same(&self, o: &Self) -> bool {
        self.v == o.v
            && match (&self.next, &o.next) {
                (None, None) => true,
                (Some(a), Some(b)) => a.same(b),
                _ => false,
            }
    }
}

// ------------------------------------------------------------------ enums

/// constructor record prefix: enum record version 0, constructor index, constructor record version 0
fn enc_ctor(b: &mut Buf, idx: u32) {
    b.u8(0);
    b.varu(idx);
    b.u8(0);
}

/// reads `0 idx`, returns idx; the constructor's own version byte is read by the caller
fn dec_ctor(r: &mut Rd) -> Option<u32> {
    dec_v0(r)?;
    r.varu()
}

#[derive(BinaryCodec)]
pub enum E3 {
    A,
    B(u8),
    C { x: u16 },
}

impl Model for E3 {
    fn arb(sh: &mut Shape) -> Self {
        match sh.choice(3) {
            0 => E3::A,
            1 => E3::B(u8::arb(sh)),
            _ => E3::C { x: u16::arb(sh) },
        }
    }
    fn enc(&self, b: &mut Buf) {
        match self {
            E3::A => enc_ctor(b, 0),
            E3::B(v) => {
                enc_ctor(b, 1);
                v.enc(b);
            }
            E3::C { x } => {
                enc_ctor(b, 2);
                x.enc(b);
            }
        }
    }
    fn dec(r: &mut Rd) -> Option<Self> {
        match dec_ctor(r)? {
            0 => {
                dec_v0(r)?;
                Some(E3::A)
            }
            1 => {
                dec_v0(r)?;
                Some(E3::B(u8::dec(r)?))
            }
            2 => {
                dec_v0(r)?;
                Some(E3::C { x: u16::dec(r)? })
            }
            _ => None,
        }
    }
    fn same(&self, o: &Self) -> bool {
        match (self, o) {
            (E3::A, E3::A) => true,
            (E3::B(a), E3::B(b)) => a == b,
            (E3::C { x: a }, E3::C { x: b }) => a == b,
            _ => false,
        }
    }
}

/// E3 extended by two appended constructors (C13)
#[derive(BinaryCodec)]
pub enum E5 {
    A,
    B(u8),
    C { x: u16 },
    D(u8, bool),
    E,
}

impl Model for E5 {
    fn arb(sh: &mut Shape) -> Self {
        match sh.choice(5) {
            0 => E5::A,
            1 => E5::B(u8::arb(sh)),
            2 => E5::C { x: u16::arb(sh) },
            3 => E5::D(u8::arb(sh), bool::arb(sh)),
            _ => E5::E,
        }
    }
    fn enc(&self, b: &mut Buf) {
        match self {
            E5::A => enc_ctor(b, 0),
            E5::B(v) => {
                enc_ctor(b, 1);
                v.enc(b);
            }
            E5::C { x } => {
                enc_ctor(b, 2);
                x.enc(b);
            }
            E5::D(v, w) => {
                enc_ctor(b, 3);
                v.enc(b);
                w.enc(b);
            }
            E5::E => enc_ctor(b, 4),
        }
    }
    fn dec(r: &mut Rd) -> Option<Self> {
        let idx = dec_ctor(r)?;
        if idx > 4 {
            return None;
        }
        dec_v0(r)?;
        Some(match idx {
            0 => E5::A,
            1 => E5::B(u8::dec(r)?),
            2 => E5::C { x: u16::dec(r)? },
            3 => E5::D(u8::dec(r)?, bool::dec(r)?),
            _ => E5::E,
        })
    }
    fn same(&self, o: &Self) -> bool {
        match (self, o) {
            (E5::A, E5::A) => true,
            (E5::B(a), E5::B(b)) => a == b,
            (E5::C { x: a }, E5::C { x: b }) => a == b,
            (E5::D(a, c), E5::D(b, d)) => a == b && c == d,
            (E5::E, E5::E) => true,
            _ => false,
        }
    }
}

// the transient variants sit at three different positions relative to A and B:
#[derive(BinaryCodec)]
pub enum ETf {
    #[transient]
    T(u16),
    A(u8),
    B,
}
#[derive(BinaryCodec)]
pub enum ETm {
    A(u8),
    #[transient]
    T(u16),
    B,
}
#[derive(BinaryCodec)]
pub enum ETl {
    A(u8),
    B,
    #[transient]
    T(u16),
}

macro_rules! transient_enum_model {
    ($name:ident, $ia:expr, $ib:expr, $it:expr) => {
        impl $name {
            pub const IDX_A: u32 = $ia;
            pub const IDX_B: u32 = $ib;
            pub const IDX_T: u32 = $it;
        }
        impl Model for $name {
            fn arb(sh: &mut Shape) -> Self {
                if sh.choice(2) == 0 {
                    $name::A(u8::arb(sh))
                } else {
                    $name::B
                }
            }
            fn enc(&self, b: &mut Buf) {
                match self {
                    $name::A(v) => {
                        enc_ctor(b, $ia);
                        v.enc(b);
                    }
                    $name::B => enc_ctor(b, $ib),
                    $name::T(_) => {}
                }
            }
            fn dec(r: &mut Rd) -> Option<Self> {
                let idx = dec_ctor(r)?;
                if idx == $ia {
                    dec_v0(r)?;
                    Some($name::A(u8::dec(r)?))
                } else if idx == $ib {
                    dec_v0(r)?;
                    Some($name::B)
                } else {
                    None
                }
            }
            fn same(&self, o: &Self) -> bool {
                match (self, o) {
                    ($name::A(a), $name::A(b)) => a == b,
                    ($name::B, $name::B) => true,
                    _ => false,
                }
            }
        }
    };
}
transient_enum_model!(ETf, 1, 2, 0);
transient_enum_model!(ETm, 0, 2, 1);
transient_enum_model!(ETl, 0, 1, 2);

/// a tuple variant with a transient positional field in the middle
#[derive(BinaryCodec)]
pub enum ETup {
    Mid(u8, #[transient(7u8)] u8, u16),
    Plain(u8),
}

impl Model for ETup {
    fn arb(sh: &mut Shape) -> Self {
        if sh.choice(2) == 0 {
            ETup::Mid(u8::arb(sh), u8::arb(sh), u16::arb(sh))
        } else {
            ETup::Plain(u8::arb(sh))
        }
    }
    fn enc(&self, b: &mut Buf) {
        match self {
            ETup::Mid(a, _t, c) => {
                enc_ctor(b, 0);
                a.enc(b);
                c.enc(b);
            }
            ETup::Plain(a) => {
                enc_ctor(b, 1);
                a.enc(b);
            }
        }
    }
    fn dec(r: &mut Rd) -> Option<Self> {
        let idx = dec_ctor(r)?;
        if idx == 0 {
            dec_v0(r)?;
            Some(ETup::Mid(u8::dec(r)?, 7, u16::dec(r)?))
        } else if idx == 1 {
            dec_v0(r)?;
            Some(ETup::Plain(u8::dec(r)?))
        } else {
            None
        }
    }
    fn same(&self, o: &Self) -> bool {
        match (self, o) {
            (ETup::Mid(a, _, c), ETup::Mid(b, t, d)) => a == b && c == d && *t == 7,
            (ETup::Plain(a), ETup::Plain(b)) => a == b,
            _ => false,
        }
    }
}

/// sorted constructors: index = position in name order (Alpha 0, Mid 1, Zeta 2), not declaration order
#[derive(BinaryCodec)]
#[sorted_constructors]
pub enum ES {
    Zeta(u8),
    Alpha,
    Mid { v: u16 },
}

impl Model for ES {
    fn arb(sh: &mut Shape) -> Self {
        match sh.choice(3) {
            0 => ES::Zeta(u8::arb(sh)),
            1 => ES::Alpha,
            _ => ES::Mid { v: u16::arb(sh) },
        }
    }
    fn enc(&self, b: &mut Buf) {
        match self {
            ES::Alpha => enc_ctor(b, 0),
            ES::Mid { v } => {
                enc_ctor(b, 1);
                v.enc(b);
            }
            ES::Zeta(v) => {
                enc_ctor(b, 2);
                v.enc(b);
            }
        }
    }
    fn dec(r: &mut Rd) -> Option<Self> {
        let idx = dec_ctor(r)?;
        if idx > 2 {
            return None;
        }
        dec_v0(r)?;
        Some(match idx {
            0 => ES::Alpha,
            1 => ES::Mid { v: u16::dec(r)? },
            _ => ES::Zeta(u8::dec(r)?),
        })
    }
    fn same(&self, o: &Self) -> bool {
        match (self, o) {
            (ES::Alpha, ES::Alpha) => true,
            (ES::Mid { v: a }, ES::Mid { v: b }) => a == b,
            (ES::Zeta(a), ES::Zeta(b)) => a == b,
            _ => false,
        }
    }
}

/// sorted constructors with a transient one whose position changes under sorting
/// (declared first, sorted last): Alpha 0, Mid 1, Zeta 2 (transient)
#[derive(BinaryCodec)]
#[sorted_constructors]
pub enum EST {
    #[transient]
    Zeta(u16),
    Alpha(u8),
    Mid,
}

impl EST {
    pub const IDX_T: u32 = 2;
}

impl Model for EST {
    fn arb(sh: &mut Shape) -> Self {
        if sh.choice(2) == 0 {
            EST::Alpha(u8::arb(sh))
        } else {
            EST::Mid
        }
    }
    fn enc(&self, b: &mut Buf) {
        match self {
            EST::Alpha(v) => {
                enc_ctor(b, 0);
                v.enc(b);
            }
            EST::Mid => enc_ctor(b, 1),
            EST::Zeta(_) => {}
        }
    }
    fn dec(r: &mut Rd) -> Option<Self> {
        let idx = dec_ctor(r)?;
        if idx == 0 {
            dec_v0(r)?;
            Some(EST::Alpha(u8::dec(r)?))
        } else if idx == 1 {
            dec_v0(r)?;
            Some(EST::Mid)
        } else {
            None
        }
    }
    fn same(&self, o: &Self) -> bool {
        match (self, o) {
            (EST::Alpha(a), EST::Alpha(b)) => a == b,
            (EST::Mid, EST::Mid) => true,
            _ => false,
        }
    }
}

/// sorted constructors whose names differ in letter case at the deciding position: name order is
/// plain string order ("URL" < "Uri" because 'R' < 'r'), so URL = 0, Uri = 1
#[derive(BinaryCodec)]
#[sorted_constructors]
pub enum ESC {
    Uri(u8),
    URL(u16),
}

impl Model for ESC {
    fn arb(sh: &mut Shape) -> Self {
        if sh.choice(2) == 0 {
            ESC::Uri(u8::arb(sh))
        } else {
            ESC::URL(u16::arb(sh))
        }
    }
    fn enc(&self, b: &mut Buf) {
        match self {
            ESC::URL(v) => {
                enc_ctor(b, 0);
                v.enc(b);
            }
            ESC::Uri(v) => {
                enc_ctor(b, 1);
                v.enc(b);
            }
        }
    }
    fn dec(r: &mut Rd) -> Option<Self> {
        let idx = dec_ctor(r)?;
        if idx == 0 {
            dec_v0(r)?;
            Some(ESC::URL(u16::dec(r)?))
        } else if idx == 1 {
            dec_v0(r)?;
            Some(ESC::Uri(u8::dec(r)?))
        } else {
            None
        }
    }
    fn same(&self, o: &Self) -> bool {
        match (self, o) {
            (ESC::URL(a), ESC::URL(b)) => a == b,
            (ESC::Uri(a), ESC::Uri(b)) => a == b,
            _ => false,
        }
    }
}

/// a record whose last field is optional (truncation right before its tag must be noticed)
#[derive(BinaryCodec)]
pub struct TailOpt {
    pub a: u8,
    pub b: Option<u8>,
}

impl Model for TailOpt {
    fn arb(sh: &mut Shape) -> Self {
        TailOpt { a: u8::arb(sh), b: Model::arb(sh) }
    }
    fn enc(&self, b: &mut Buf) {
        b.u8(0);
        self.a.enc(b);
        self.b.enc(b);
    }
    fn dec(r: &mut Rd) -> Option<Self> {
        dec_v0(r)?;
        Some(TailOpt { a: u8::dec(r)?, b: Model::dec(r)? })
    }
    fn same(&self, o: &Self) -> bool {
        self.a == o.a && self.b.same(&o.b)
    }
}

/// ES with a new constructor that sorts last (C13 extension under sorted order)
#[derive(BinaryCodec)]
#[sorted_constructors]
pub enum ES2 {
    Zeta(u8),
    Alpha,
    Zzz(u8),
    Mid { v: u16 },
}

#[derive(BinaryCodec)]
pub struct WithEnum {
    pub e: E3,
    pub tail: u8,
}

impl Model for WithEnum {
    fn arb(sh: &mut Shape) -> Self {
        WithEnum { e: Model::arb(sh), tail: u8::arb(sh) }
    }
    fn enc(&self, b: &mut Buf) {
        b.u8(0);
        self.e.enc(b);
        self.tail.enc(b);
    }
    fn dec(r: &mut Rd) -> Option<Self> {
        dec_v0(r)?;
        Some(WithEnum { e: Model::dec(r)?, tail: u8::dec(r)? })
    }
    fn same(&self, o: &Self) -> bool {
        self.e.same(&o.e) && self.tail == o.tail
    }
}

// ------------------------------------------------------------------ evolved declarations

/// one header entry for a chunk: zig-zag size
fn hdr_chunk(b: &mut Buf, size: usize) {
    b.vari(size as i32);
}
/// header entry for FieldMadeOptional: -1, position byte
fn hdr_made_optional(b: &mut Buf, chunk: u8, index_in_chunk: u8) {
    b.vari(-1);
    b.u8(if chunk == 0 { (0u8).wrapping_sub(index_in_chunk) } else { chunk });
}
/// header entry for FieldRemoved / FieldMadeTransient: -2, dedup string
fn hdr_removed(b: &mut Buf, name: &[u8]) {
    b.vari(-2);
    b.dedup_str(name);
}

/// history: InitialVersion {a, b}; FieldAdded("c", 7)
#[derive(BinaryCodec)]
#[evolution(FieldAdded("c", 7u8))]
pub struct V1 {
    pub a: u8,
    pub b: u16,
    pub c: u8,
}

impl Model for V1 {
    fn arb(sh: &mut Shape) -> Self {
        V1 { a: u8::arb(sh), b: u16::arb(sh), c: u8::arb(sh) }
    }
    fn enc(&self, b: &mut Buf) {
        b.u8(1);
        hdr_chunk(b, 3);
        hdr_chunk(b, 1);
        self.a.enc(b);
        self.b.enc(b);
        self.c.enc(b);
    }
    fn dec(_r: &mut Rd) -> Option<Self> {
        None // records with headers are decoded by the evolution reference (crate::evolved)
    }
    fn same(&self, o: &Self) -> bool {
        self.a == o.a && self.b == o.b && self.c == o.c
    }
}

/// history: {a, b}; FieldAdded("c", 7); FieldMadeOptional("b")
#[derive(BinaryCodec)]
#[evolution(FieldAdded("c", 7u8), FieldMadeOptional("b"))]
pub struct V2 {
    pub a: u8,
    pub b: Option<u16>,
    pub c: u8,
}

impl Model for V2 {
    fn arb(sh: &mut Shape) -> Self {
        V2 { a: u8::arb(sh), b: Model::arb(sh), c: u8::arb(sh) }
    }
    fn enc(&self, b: &mut Buf) {
        b.u8(2);
        hdr_chunk(b, if self.b.is_some() { 4 } else { 2 });
        hdr_chunk(b, 1);
        hdr_made_optional(b, 0, 1);
        self.a.enc(b);
        self.b.enc(b);
        self.c.enc(b);
    }
    fn dec(_r: &mut Rd) -> Option<Self> {
        None
    }
    fn same(&self, o: &Self) -> bool {
        self.a == o.a && self.b.same(&o.b) && self.c == o.c
    }
}

/// history: {a, b}; FieldAdded("c", 7); FieldRemoved("b")
#[derive(BinaryCodec)]
#[evolution(FieldAdded("c", 7u8), FieldRemoved("b"))]
pub struct V3 {
    pub a: u8,
    pub c: u8,
}

impl Model for V3 {
    fn arb(sh: &mut Shape) -> Self {
        V3 { a: u8::arb(sh), c: u8::arb(sh) }
    }
    fn enc(&self, b: &mut Buf) {
        b.u8(2);
        hdr_chunk(b, 1);
        hdr_chunk(b, 1);
        hdr_removed(b, b"b");
        self.a.enc(b);
        self.c.enc(b);
    }
    fn dec(_r: &mut Rd) -> Option<Self> {
        None
    }
    fn same(&self, o: &Self) -> bool {
        self.a == o.a && self.c == o.c
    }
}

/// history: {a, t}; FieldMadeTransient("t")
#[derive(BinaryCodec)]
#[evolution(FieldMadeTransient("t"))]
pub struct V4 {
    pub a: u8,
    #[transient(3u8)]
    pub t: u8,
}

impl Model for V4 {
    fn arb(sh: &mut Shape) -> Self {
        V4 { a: u8::arb(sh), t: u8::arb(sh) }
    }
    fn enc(&self, b: &mut Buf) {
        b.u8(1);
        hdr_chunk(b, 1);
        hdr_removed(b, b"t");
        self.a.enc(b);
    }
    fn dec(_r: &mut Rd) -> Option<Self> {
        None
    }
    fn same(&self, o: &Self) -> bool {
        self.a == o.a && o.t == 3
    }
}

/// history: {a, t}; FieldMadeOptional("t"); FieldMadeTransient("t") - the last clause of C14:
/// a field that was made optional and later made transient must remain encodable
#[derive(BinaryCodec)]
#[evolution(FieldMadeOptional("t"), FieldMadeTransient("t"))]
pub struct V6 {
    pub a: u8,
    #[transient(None)]
    pub t: Option<u8>,
}

impl Model for V6 {
    fn arb(sh: &mut Shape) -> Self {
        V6 { a: u8::arb(sh), t: Model::arb(sh) }
    }
    fn enc(&self, b: &mut Buf) {
        // the field is gone from the wire: both steps are recorded as "removed" with its name
        b.u8(2);
        hdr_chunk(b, 1);
        hdr_removed(b, b"t");
        hdr_removed(b, b"t");
        self.a.enc(b);
    }
    fn dec(_r: &mut Rd) -> Option<Self> {
        None
    }
    fn same(&self, o: &Self) -> bool {
        self.a == o.a && o.t.is_none()
    }
}

/// history: {a}; FieldAdded("t", 5); FieldMadeTransient("t") - the transient default (3) differs
/// from the default of the earlier FieldAdded step (5)
#[derive(BinaryCodec)]
#[evolution(FieldAdded("t", 5u8), FieldMadeTransient("t"))]
pub struct V7 {
    pub a: u8,
    #[transient(3u8)]
    pub t: u8,
}

/// history: {a, b}; FieldAdded("x", 0); FieldMadeOptional("b") - the added field is declared (and
/// therefore written) BEFORE the chunk-0 fields: positions must count within chunk 0 only
#[derive(BinaryCodec)]
#[evolution(FieldAdded("x", 0u8), FieldMadeOptional("b"))]
pub struct V8 {
    pub x: u8,
    pub a: u8,
    pub b: Option<u8>,
}

impl Model for V8 {
    fn arb(sh: &mut Shape) -> Self {
        V8 { x: u8::arb(sh), a: u8::arb(sh), b: Model::arb(sh) }
    }
    fn enc(&self, b: &mut Buf) {
        b.u8(2);
        hdr_chunk(b, if self.b.is_some() { 3 } else { 2 });
        hdr_chunk(b, 1);
        hdr_made_optional(b, 0, 1); // b is the second field of chunk 0
        self.a.enc(b);
        self.b.enc(b);
        self.x.enc(b);
    }
    fn dec(_r: &mut Rd) -> Option<Self> {
        None
    }
    fn same(&self, o: &Self) -> bool {
        self.x == o.x && self.a == o.a && self.b.same(&o.b)
    }
}

/// two added fields in two generations, written out of generation order in the declaration
#[derive(BinaryCodec)]
#[evolution(FieldAdded("x", 1u8), FieldAdded("y", 2u16))]
pub struct V5 {
    pub y: u16,
    pub a: u8,
    pub x: u8,
}

impl Model for V5 {
    fn arb(sh: &mut Shape) -> Self {
        V5 { y: u16::arb(sh), a: u8::arb(sh), x: u8::arb(sh) }
    }
    fn enc(&self, b: &mut Buf) {
        b.u8(2);
        hdr_chunk(b, 1);
        hdr_chunk(b, 1);
        hdr_chunk(b, 2);
        self.a.enc(b);
        self.x.enc(b);
        self.y.enc(b);
    }
    fn dec(_r: &mut Rd) -> Option<Self> {
        None
    }
    fn same(&self, o: &Self) -> bool {
        self.a == o.a && self.x == o.x && self.y == o.y
    }
}

/// enum whose struct variant carries an evolution step
#[derive(BinaryCodec)]
pub enum EV {
    Plain(u8),
    #[evolution(FieldAdded("n", 5u8))]
    Grown { m: u8, n: u8 },
}

impl Model for EV {
    fn arb(sh: &mut Shape) -> Self {
        if sh.choice(2) == 0 {
            EV::Plain(u8::arb(sh))
        } else {
            EV::Grown { m: u8::arb(sh), n: u8::arb(sh) }
        }
    }
    fn enc(&self, b: &mut Buf) {
        match self {
            EV::Plain(v) => {
                enc_ctor(b, 0);
                v.enc(b);
            }
            EV::Grown { m, n } => {
                b.u8(0);
                b.varu(1);
                b.u8(1);
                hdr_chunk(b, 1);
                hdr_chunk(b, 1);
                m.enc(b);
                n.enc(b);
            }
        }
    }
    fn dec(_r: &mut Rd) -> Option<Self> {
        None
    }
    fn same(&self, o: &Self) -> bool {
        match (self, o) {
            (EV::Plain(a), EV::Plain(b)) => a == b,
            (EV::Grown { m: a, n: c }, EV::Grown { m: b, n: d }) => a == b && c == d,
            _ => false,
        }
    }
}

/// a deduplicated string in an evolved record whose header carries a removed field name (D12):
/// the name is emitted *after* the fields were encoded but stands *before* them in the stream.
#[derive(BinaryCodec)]
#[evolution(FieldRemoved("z"))]
pub struct VD {
    pub s: desert_core::DeduplicatedString,
}
