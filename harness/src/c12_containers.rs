//! C12 — sequence encodings are container-independent and size-form-independent.
#![allow(unused_imports)]
use crate::checks::assert_bytes_eq;
use crate::refmodel::{Buf, Model, Shape};
use crate::sym;
use desert_core::{BinarySerializer, SerializationContext};
use std::collections::LinkedList;

fn elems3<E: Model>() -> [E; 3] {
    let mut sh = Shape::concrete(0, 0);
    [E::arb(&mut sh), E::arb(&mut sh), E::arb(&mut sh)]
}

/// both size forms of the same `n` elements
fn known_form<E: Model>(xs: &[E; 3], n: usize) -> Buf {
    let mut b = Buf::new();
    b.vari(n as i32);
    let mut i = 0;
    while i < n {
        xs[i].enc(&mut b);
        i += 1;
    }
    b
}
fn unknown_form<E: Model>(xs: &[E; 3], n: usize) -> Buf {
    let mut b = Buf::new();
    b.vari(-1);
    let mut i = 0;
    while i < n {
        b.u8(1);
        xs[i].enc(&mut b);
        i += 1;
    }
    b.u8(0);
    b
}

fn decode_all<E: Model + desert_core::BinaryDeserializer + Eq + std::hash::Hash, const N: usize>(b: &Buf, xs: &[E; 3]) {
    match desert_core::deserialize::<Vec<E>>(&b.b[..b.n]) {
        Ok(v) => {
            assert!(v.len() == N, "Vec decoded a different number of elements");
            let mut i = 0;
            while i < N { assert!(v[i].same(&xs[i]), "Vec element differs"); i += 1; }
            std::mem::forget(v);
        }
        Err(e) => { std::mem::forget(e); assert!(false, "Vec rejected a well-formed sequence"); }
    }
    match desert_core::deserialize::<LinkedList<E>>(&b.b[..b.n]) {
        Ok(v) => {
            assert!(v.len() == N, "LinkedList decoded a different number of elements");
            let mut i = 0;
            for x in v.iter() { assert!(i < N && x.same(&xs[i]), "LinkedList element differs"); i += 1; }
            std::mem::forget(v);
        }
        Err(e) => { std::mem::forget(e); assert!(false, "LinkedList rejected a well-formed sequence"); }
    }
    match desert_core::deserialize::<[E; N]>(&b.b[..b.n]) {
        Ok(v) => {
            let mut i = 0;
            while i < N { assert!(v[i].same(&xs[i]), "array element differs"); i += 1; }
            cover!(true);
            std::mem::forget(v);
        }
        Err(e) => { std::mem::forget(e); assert!(false, "array rejected a well-formed sequence of matching length"); }
    }
}

macro_rules! decode_forms {
    ($known:ident, $unknown:ident, $e:ty, $n:expr) => {
        proof! { fn $known() unwind(7) { let xs = elems3::<$e>(); let b = known_form(&xs, $n); decode_all::<$e, $n>(&b, &xs); } }
        proof! { fn $unknown() unwind(7) { let xs = elems3::<$e>(); let b = unknown_form(&xs, $n); decode_all::<$e, $n>(&b, &xs); } }
    };
}

//@ props=C12,C04 tier=quick bounds=E=u16;n=2;known-length-form;targets:Vec,LinkedList,[E;2]
//@ props=C12,C04 tier=quick bounds=E=u16;n=2;unknown-length-form;targets:Vec,LinkedList,[E;2]
decode_forms!(c12_dec_u16_2_known, c12_dec_u16_2_unknown, u16, 2);
//@ props=C12,C04 tier=quick bounds=E=u16;n=0;both-forms
//@ props=C12,C04 tier=quick bounds=E=u16;n=0;both-forms
decode_forms!(c12_dec_u16_0_known, c12_dec_u16_0_unknown, u16, 0);
//@ props=C12,C04 tier=thorough bounds=E=u16;n=3;both-forms
//@ props=C12,C04 tier=thorough bounds=E=u16;n=3;both-forms
decode_forms!(c12_dec_u16_3_known, c12_dec_u16_3_unknown, u16, 3);
//@ props=C12,C04 tier=thorough bounds=E=(u8,u8);n=2;both-forms
//@ props=C12,C04 tier=thorough bounds=E=(u8,u8);n=2;both-forms
decode_forms!(c12_dec_pair_2_known, c12_dec_pair_2_unknown, (u8, u8), 2);
//@ props=C12,C04 tier=thorough bounds=E=Option<u8>;n=2;both-forms
//@ props=C12,C04 tier=thorough bounds=E=Option<u8>;n=2;both-forms
decode_forms!(c12_dec_opt_2_known, c12_dec_opt_2_unknown, Option<u8>, 2);

//@ props=C12,C04 tier=quick bounds=E=();n=3;both-forms(zero-width-elements:count-exceeds-remaining-bytes)
//@ props=C12,C04 tier=quick bounds=E=();n=3;both-forms(zero-width-elements:count-exceeds-remaining-bytes)
decode_forms!(c12_dec_unit_3_known, c12_dec_unit_3_unknown, (), 3);

/// an iterator whose size hint is inexact: forces the unknown-length form
struct Inexact<'a, E> { xs: &'a [E], i: usize }
impl<'a, E> Iterator for Inexact<'a, E> {
    type Item = &'a E;
    fn next(&mut self) -> Option<&'a E> {
        if self.i < self.xs.len() { self.i += 1; Some(&self.xs[self.i - 1]) } else { None }
    }
    fn size_hint(&self) -> (usize, Option<usize>) { (0, None) }
}

/// an iterator whose size hint has an upper bound that is not exact (like `filter`)
struct UpperBound<'a, E> { xs: &'a [E], i: usize, claimed: usize }
impl<'a, E> Iterator for UpperBound<'a, E> {
    type Item = &'a E;
    fn next(&mut self) -> Option<&'a E> {
        if self.i < self.xs.len() { self.i += 1; Some(&self.xs[self.i - 1]) } else { None }
    }
    fn size_hint(&self) -> (usize, Option<usize>) { (0, Some(self.claimed)) }
}

proof! {
    //@ props=C12,C04 tier=quick bounds=serialize_iterator:size-hint(0,Some(n))-with-n-symbolic>=2,two-elements-yielded:unknown-length-form
    fn c12_enc_inexact_upper_bound() unwind(7) {
        let xs = elems3::<u16>();
        let v: Vec<u16> = vec![xs[0], xs[1]];
        let ru = unknown_form(&xs, 2);
        let claimed = sym::usize_();
        sym::assume(claimed >= 2);
        let mut ctx = SerializationContext::new(Vec::new());
        let mut it = UpperBound { xs: &v[..], i: 0, claimed };
        match desert_core::serialize_iterator(&mut it, &mut ctx) {
            Ok(()) => {}
            Err(e) => { std::mem::forget(e); assert!(false); }
        }
        let out = ctx.into_output();
        assert_bytes_eq(&out, &ru);
        cover!(claimed == 2);
        cover!(claimed > 2);
        std::mem::forget(out);
        std::mem::forget(v);
    }
}

fn ser<T: BinarySerializer>(v: &T, r: &Buf) {
    match desert_core::serialize(v, Vec::new()) {
        Ok(out) => { assert_bytes_eq(&out, r); std::mem::forget(out); }
        Err(e) => { std::mem::forget(e); assert!(false, "encoding failed"); }
    }
}

proof! {
    //@ props=C12,C04 tier=quick bounds=E=u16;n=2;sources:Vec,slice,array,LinkedList,inexact-iterator
    fn c12_enc_u16_2() unwind(7) {
        let xs = elems3::<u16>();
        let r = known_form(&xs, 2);
        let v: Vec<u16> = vec![xs[0], xs[1]];
        ser(&v, &r);
        let sl: &[u16] = &v[..];
        ser(&sl, &r);
        let arr: [u16; 2] = [xs[0], xs[1]];
        ser(&arr, &r);
        let mut l = LinkedList::new();
        l.push_back(xs[0]);
        l.push_back(xs[1]);
        ser(&l, &r);
        // unknown-length form through the public helper
        let ru = unknown_form(&xs, 2);
        let mut ctx = SerializationContext::new(Vec::new());
        let mut it = Inexact { xs: &v[..], i: 0 };
        match desert_core::serialize_iterator(&mut it, &mut ctx) {
            Ok(()) => {}
            Err(e) => { std::mem::forget(e); assert!(false); }
        }
        let out = ctx.into_output();
        assert_bytes_eq(&out, &ru);
        std::mem::forget(out);
        std::mem::forget(v);
        std::mem::forget(l);
    }
}

proof! {
    //@ props=C12,C04 tier=quick bounds=byte-containers;n=2;Vec<u8>,&[u8],[u8;2],Bytes:encode-identically,decode-each-other
    fn c12_byte_containers() unwind(7) {
        let x: [u8; 2] = sym::bytes();
        let mut r = Buf::new();
        r.varu(2);
        r.u8(x[0]);
        r.u8(x[1]);
        let v: Vec<u8> = vec![x[0], x[1]];
        ser(&v, &r);
        let sl: &[u8] = &v[..];
        ser(&sl, &r);
        ser(&x, &r);
        let by = bytes::Bytes::from(vec![x[0], x[1]]);
        ser(&by, &r);
        match desert_core::deserialize::<Vec<u8>>(&r.b[..r.n]) {
            Ok(w) => { assert!(w.len() == 2 && w[0] == x[0] && w[1] == x[1]); std::mem::forget(w); }
            Err(e) => { std::mem::forget(e); assert!(false); }
        }
        match desert_core::deserialize::<bytes::Bytes>(&r.b[..r.n]) {
            Ok(w) => { assert!(w.len() == 2 && w[0] == x[0] && w[1] == x[1]); std::mem::forget(w); }
            Err(e) => { std::mem::forget(e); assert!(false); }
        }
        match desert_core::deserialize::<[u8; 2]>(&r.b[..r.n]) {
            Ok(w) => { assert!(w[0] == x[0] && w[1] == x[1], "[u8; 2] decoded other bytes than the ones written"); }
            Err(e) => { std::mem::forget(e); assert!(false); }
        }
        std::mem::forget(v);
        std::mem::forget(by);
    }
}


/// C08 on the size form the Rust writer never emits: every strict prefix of an unknown-length
/// sequence is an error (cut points enumerated, elements symbolic).
fn trunc_unknown_form<T: desert_core::BinaryDeserializer>(b: &Buf) {
    let n = b.n;
    let mut k = 0;
    while k < 8 {
        if k < n {
            match desert_core::deserialize::<T>(&b.b[..k]) {
                Ok(v) => { std::mem::forget(v); assert!(false, "a strict prefix of an unknown-length sequence was decoded"); }
                Err(e) => { cover!(k + 1 == n); std::mem::forget(e); }
            }
        }
        k += 1;
    }
    assert!(n <= 8);
}

proof! {
    //@ props=C08,C12 tier=off bounds=unknown-length-form;E=u16;n=2;every-cut-point;targets:Vec,LinkedList,[E;2] cap=900
    fn c08_trunc_unknown_form_u16() unwind(10) {
        let xs = elems3::<u16>();
        let b = unknown_form(&xs, 2);
        trunc_unknown_form::<Vec<u16>>(&b);
        trunc_unknown_form::<LinkedList<u16>>(&b);
        trunc_unknown_form::<[u16; 2]>(&b);
    }
}

proof! {
    //@ props=C08,C12 tier=off bounds=unknown-length-form;E=u8-in-LinkedList,Option<u8>-in-Vec;n=1;every-cut-point cap=900
    fn c08_trunc_unknown_form_small() unwind(10) {
        let xs = elems3::<Option<u8>>();
        let b = unknown_form(&xs, 1);
        trunc_unknown_form::<Vec<Option<u8>>>(&b);
        let ys = elems3::<u8>();
        let b = unknown_form(&ys, 1);
        trunc_unknown_form::<LinkedList<u8>>(&b);
    }
}

proof! {
    //@ props=C08,C12 tier=quick bounds=unknown-length-form;Vec<u16>;empty-list-cut-before-its-terminator;one-element-list-cut-before-its-terminator cap=900
    fn c08_trunc_unknown_form_min() unwind(6) {
        // -1 marker only: the terminator is missing
        let b0 = [0x01u8];
        match desert_core::deserialize::<Vec<u16>>(&b0) {
            Ok(v) => { std::mem::forget(v); assert!(false, "an unknown-length sequence without its terminator was decoded"); }
            Err(e) => std::mem::forget(e),
        }
        // -1 marker, one flagged element, terminator missing
        let x: [u8; 2] = sym::bytes();
        let b1 = [0x01u8, 0x01, x[0], x[1]];
        match desert_core::deserialize::<Vec<u16>>(&b1) {
            Ok(v) => { std::mem::forget(v); assert!(false, "an unknown-length sequence without its terminator was decoded"); }
            Err(e) => { cover!(true); std::mem::forget(e); }
        }
    }
}


proof! {
    //@ props=C07,C12 tier=quick bounds=[u16;2]-and-Vec<u16>-read-from-the-unknown-length-form-followed-by-one-symbolic-byte:exactly-that-byte-is-left cap=900
    fn c07_unknown_form_is_consumed_in_full() unwind(8) {
        use desert_core::{BinaryDeserializer, BinaryInput, DeserializationContext};
        let xs = elems3::<u16>();
        let mut b = unknown_form(&xs, 2);
        let s0 = sym::u8_();
        b.u8(s0);
        let mut ctx = DeserializationContext::new(&b.b[..b.n]);
        match <[u16; 2]>::deserialize(&mut ctx) {
            Ok(v) => {
                assert!(v[0] == xs[0] && v[1] == xs[1]);
                assert!(matches!(ctx.read_u8(), Ok(x) if x == s0), "the array decoder left part of the sequence (its terminator) unread");
                match ctx.read_u8() { Ok(_) => assert!(false), Err(e) => std::mem::forget(e) }
            }
            Err(e) => { std::mem::forget(e); assert!(false); }
        }
        std::mem::forget(ctx);
        let mut ctx = DeserializationContext::new(&b.b[..b.n]);
        match Vec::<u16>::deserialize(&mut ctx) {
            Ok(v) => {
                assert!(v.len() == 2);
                assert!(matches!(ctx.read_u8(), Ok(x) if x == s0));
                cover!(true);
                std::mem::forget(v);
            }
            Err(e) => { std::mem::forget(e); assert!(false); }
        }
        std::mem::forget(ctx);
    }
}

proof! {
    //@ props=C06,C05,C19 tier=quick bounds=[u16;2]-from-known-length-sequences-of-1-and-3-elements(elements-symbolic):must-be-Err cap=900
    fn c06_array_count_mismatch() unwind(8) {
        let xs = elems3::<u16>();
        let short = known_form(&xs, 1);
        match desert_core::deserialize::<[u16; 2]>(&short.b[..short.n]) {
            Ok(v) => { std::mem::forget(v); assert!(false, "an array was produced from fewer elements than its length"); }
            Err(e) => std::mem::forget(e),
        }
        let long = known_form(&xs, 3);
        match desert_core::deserialize::<[u16; 2]>(&long.b[..long.n]) {
            Ok(v) => { std::mem::forget(v); assert!(false, "an array was produced from more elements than its length"); }
            Err(e) => { cover!(true); std::mem::forget(e); }
        }
    }
}
