//! C17 — encoding never panics: unsupported values are reported as errors.
#![allow(unused_imports)]
use crate::refmodel::Buf;
use crate::sym;
use desert_core::{BinarySerializer, Error, SerializationContext};

proof! {
    //@ props=C17,C01,C04 tier=quick bounds=char:every-Unicode-scalar-value
    fn c17_char_all() unwind(4) {
        let c = sym::char_();
        match desert_core::serialize_to_byte_vec(&c) {
            Ok(out) => {
                assert!((c as u32) <= 0xFFFF, "a character outside the 16-bit range was encoded");
                assert!(out.len() == 2 && out[0] == ((c as u32) >> 8) as u8 && out[1] == (c as u32) as u8);
                cover!(c as u32 == 0xFFFF);
                std::mem::forget(out);
            }
            Err(e) => {
                assert!((c as u32) > 0xFFFF, "a 16-bit character was rejected");
                assert!(matches!(e, Error::UnsupportedCharacter(x) if x == c));
                cover!(c as u32 == 0x10000);
                std::mem::forget(e);
            }
        }
    }
}

/// an iterator that claims an exact, symbolic length and yields nothing
struct Claims(usize);
impl Iterator for Claims {
    type Item = u8;
    fn next(&mut self) -> Option<u8> { None }
    fn size_hint(&self) -> (usize, Option<usize>) { (self.0, Some(self.0)) }
}

proof! {
    //@ props=C17 tier=quick bounds=serialize_iterator:every-exact-size_hint>i32::MAX
    fn c17_size_hint_too_large() unwind(4) {
        let n = sym::usize_();
        sym::assume(n > i32::MAX as usize);
        let mut ctx = SerializationContext::new(Vec::new());
        let mut it = Claims(n);
        match desert_core::serialize_iterator(&mut it, &mut ctx) {
            Ok(()) => assert!(false, "a length beyond the format's 31-bit count was written"),
            Err(e) => {
                assert!(matches!(e, Error::LengthTooLarge));
                cover!(n == usize::MAX);
                cover!(n == i32::MAX as usize + 1);
                std::mem::forget(e);
            }
        }
        std::mem::forget(ctx);
    }
}

proof! {
    //@ props=C17 tier=quick bounds=Vec<()>,&[()]:every-length>i32::MAX(zero-width-elements,no-allocation)
    fn c17_vec_unit_too_large() unwind(4) {
        let n = sym::usize_();
        sym::assume(n > i32::MAX as usize);
        let mut v: Vec<()> = Vec::new();
        // zero-sized elements: any length is a valid Vec without allocation
        unsafe { v.set_len(n) };
        match desert_core::serialize(&v, desert_core::SizeCalculator::new()) {
            Ok(_) => assert!(false, "a length beyond the format's 31-bit count was written"),
            Err(e) => { assert!(matches!(e, Error::LengthTooLarge)); std::mem::forget(e); }
        }
        let sl: &[()] = &v[..];
        match desert_core::serialize(&sl, desert_core::SizeCalculator::new()) {
            Ok(_) => assert!(false, "a length beyond the format's 31-bit count was written"),
            Err(e) => { assert!(matches!(e, Error::LengthTooLarge)); std::mem::forget(e); }
        }
        std::mem::forget(v);
    }
}

proof! {
    //@ props=C17,C04 tier=quick bounds=FieldPosition::to_byte:every(chunk,position)
    fn c17_field_position_byte() unwind(4) {
        use desert_core::adt::FieldPosition;
        let chunk = sym::u8_();
        let position = sym::u8_();
        // positions the position byte can express: chunk 0 -> index 0..=128, later chunks -> none
        sym::assume(if chunk == 0 { position <= 128 } else { position == 0 && chunk <= 127 });
        let p = FieldPosition::new(chunk, position);
        let b = p.to_byte();
        if chunk == 0 {
            assert!(b == (0u8).wrapping_sub(position), "position byte is not minus the index");
        } else {
            assert!(b == chunk);
        }
        match desert_core::serialize_to_byte_vec(&p) {
            Ok(out) => { assert!(out.len() == 1 && out[0] == b); std::mem::forget(out); }
            Err(e) => { std::mem::forget(e); assert!(false); }
        }
        cover!(chunk == 0 && position == 128);
    }
}

proof! {
    //@ props=C17,C18 tier=quick bounds=failed-encoding-hands-back-no-bytes;then-a-second-call-is-unaffected
    fn c17_failure_returns_no_output() unwind(6) {
        let c = sym::char_();
        sym::assume(c as u32 > 0xFFFF);
        let v: (u8, char) = (sym::u8_(), c);
        match desert_core::serialize_to_bytes(&v) {
            Ok(out) => { std::mem::forget(out); assert!(false); }
            Err(e) => std::mem::forget(e),
        }
        let w: (u8, u8) = (sym::u8_(), sym::u8_());
        match desert_core::serialize_to_byte_vec(&w) {
            Ok(out) => { assert!(out.len() == 3 && out[0] == 0 && out[1] == w.0 && out[2] == w.1); std::mem::forget(out); }
            Err(e) => { std::mem::forget(e); assert!(false); }
        }
    }
}
