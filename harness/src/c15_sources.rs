//! C15 — every input implementation decodes the same primitives from the same bytes and reports
//! end of input at the same point: a symbolic program of primitive reads runs in lock-step on
//! SliceInput, OwnedInput and DeserializationContext.
use crate::sym;
use desert_core::{BinaryInput, DeserializationContext, OwnedInput, SliceInput};

/// outcome of one primitive read, comparable across implementations
#[derive(PartialEq, Eq, Clone, Copy)]
enum Out {
    Err,
    Val(u64, u64),
}

fn step<I: BinaryInput>(inp: &mut I, op: u8, count: usize) -> Out {
    macro_rules! r {
        ($e:expr) => {
            match $e {
                Ok(v) => v,
                Err(e) => {
                    std::mem::forget(e);
                    return Out::Err;
                }
            }
        };
    }
    match op {
        0 => Out::Val(r!(inp.read_u8()) as u64, 0),
        1 => {
            let s = r!(inp.read_bytes(count));
            // length, first and last byte identify the slice well enough for a 6-byte buffer
            let first = if s.len() > 0 { s[0] as u64 } else { 0 };
            let last = if s.len() > 0 { s[s.len() - 1] as u64 } else { 0 };
            Out::Val(s.len() as u64, first << 8 | last)
        }
        2 => {
            r!(inp.skip(count));
            Out::Val(0, 0)
        }
        3 => Out::Val(r!(inp.read_u16()) as u64, 0),
        4 => Out::Val(r!(inp.read_var_u32()) as u64, 0),
        5 => Out::Val(r!(inp.read_var_i32()) as u32 as u64, 0),
        6 => Out::Val(r!(inp.read_i32()) as u32 as u64, 0),
        7 => Out::Val(r!(inp.read_i8()) as u8 as u64, 0),
        _ => {
            let v = r!(inp.read_u128());
            Out::Val(v as u64, (v >> 64) as u64)
        }
    }
}

fn lockstep(nops: usize) {
    let data: [u8; 6] = sym::bytes();
    let len = sym::index_below(7);
    let mut a = SliceInput::new(&data[..len]);
    let mut v = data.to_vec();
    v.truncate(len);
    let mut b = OwnedInput::new(v);
    let mut c = DeserializationContext::new(&data[..len]);
    let mut i = 0;
    while i < nops {
        let op = sym::below(9);
        let count = sym::usize_();
        let ra = step(&mut a, op, count);
        let rb = step(&mut b, op, count);
        let rc = step(&mut c, op, count);
        assert!(ra == rb, "SliceInput and OwnedInput disagree");
        assert!(ra == rc, "SliceInput and DeserializationContext disagree");
        cover!(ra == Out::Err);
        cover!(ra != Out::Err && op == 4);
        i += 1;
    }
    std::mem::forget(b);
    std::mem::forget(c);
}

proof! {
    //@ props=C15,C05 tier=quick bounds=buffer<=6(length-symbolic);1-operation-from-9-primitives-after-a-symbolic-skip;count:any-usize cap=900
    fn c15_sources_lockstep_1() unwind(8) {
        let data: [u8; 6] = sym::bytes();
        let len = sym::index_below(7);
        let pos = sym::index_below(len + 1);
        let mut a = SliceInput::new(&data[..len]);
        let mut v = data.to_vec();
        v.truncate(len);
        let mut b = OwnedInput::new(v);
        let mut c = DeserializationContext::new(&data[..len]);
        let s0 = (step(&mut a, 2, pos), step(&mut b, 2, pos), step(&mut c, 2, pos));
        assert!(s0.0 == s0.1 && s0.0 == s0.2 && s0.0 != Out::Err);
        let op = sym::below(9);
        let count = sym::usize_();
        let ra = step(&mut a, op, count);
        let rb = step(&mut b, op, count);
        let rc = step(&mut c, op, count);
        assert!(ra == rb, "SliceInput and OwnedInput disagree");
        assert!(ra == rc, "SliceInput and DeserializationContext disagree");
        // and they agree on where the input ends afterwards
        let ea = step(&mut a, 0, 0);
        let eb = step(&mut b, 0, 0);
        let ec = step(&mut c, 0, 0);
        assert!(ea == eb && ea == ec, "the inputs disagree on the end of input");
        cover!(ra == Out::Err);
        cover!(ra != Out::Err && op == 4);
        std::mem::forget(b);
        std::mem::forget(c);
    }
}

proof! {
    //@ props=C15,C05 tier=off bounds=buffer<=6(length-symbolic);2-operations-from-9-primitives;counts:any-usize cap=900
    fn c15_sources_lockstep_2() unwind(8) { lockstep(2); }
}

proof! {
    //@ props=C15,C05 tier=off bounds=buffer<=6(length-symbolic);3-operations-from-9-primitives;counts:any-usize cap=2400
    fn c15_sources_lockstep_3() unwind(8) { lockstep(3); }
}
