#!/bin/sh
# Builds the harness crate natively (offline) and runs the reference-model self-tests.
set -e
cd "$(dirname "$0")/harness"
export CARGO_NET_OFFLINE=true
export RUSTFLAGS="--cfg desert_verif_hooks"
cargo build --lib --tests --target-dir ../target-native 2>&1 | tail -n 2
timeout 600 cargo test --lib --target-dir ../target-native -- selftest 2>&1 | tail -n 5
