//! Native self-tests that validate the reference model against the bytes pinned in the repository
//! (run by /verif/setup.sh; not solver queries).
#![cfg(all(test, not(kani)))]
use crate::refmodel::Buf;

/// desert_macro/tests/derivation.rs pins these 14 bytes for
/// `#[evolution(FieldAdded("x", 0), FieldRemoved("z"))] struct Point { x: i32, y: i32, #[transient] .. }`
/// with x = 1, y = -10.
#[test]
fn selftest_point_vector() {
    let expected = [0x02u8, 0x08, 0x08, 0x03, 0x02, 0x7a, 0xff, 0xff, 0xff, 0xf6, 0, 0, 0, 1];
    let mut b = Buf::new();
    b.u8(2); // version = number of evolution steps
    b.vari(4); // chunk 0: y
    b.vari(4); // chunk 1: x (FieldAdded)
    b.vari(-2); // FieldRemoved
    b.dedup_str(b"z");
    b.be4((-10i32) as u32);
    b.be4(1);
    assert_eq!(&b.b[..b.n], &expected[..]);
}

#[test]
fn selftest_varints_and_zigzag() {
    let mut b = Buf::new();
    b.varu(0);
    b.varu(127);
    b.varu(128);
    b.varu(300);
    b.varu(u32::MAX);
    b.vari(-1);
    b.vari(i32::MIN);
    b.vari(i32::MAX);
    assert_eq!(
        &b.b[..b.n],
        &[0, 127, 0x80, 1, 0xac, 2, 0xff, 0xff, 0xff, 0xff, 0x0f, 1, 0xff, 0xff, 0xff, 0xff, 0x0f, 0xfe, 0xff, 0xff, 0xff, 0x0f][..]
    );
    let mut r = crate::refmodel::Rd::new(&b.b[..b.n]);
    assert_eq!(r.varu(), Some(0));
    assert_eq!(r.varu(), Some(127));
    assert_eq!(r.varu(), Some(128));
    assert_eq!(r.varu(), Some(300));
    assert_eq!(r.varu(), Some(u32::MAX));
    assert_eq!(r.vari(), Some(-1));
    assert_eq!(r.vari(), Some(i32::MIN));
    assert_eq!(r.vari(), Some(i32::MAX));
}

/// the leading bytes of the Scala-written golden file: version 2 header of TestModel1
#[test]
fn selftest_golden_header() {
    let bytes = include_bytes!("/repo/desert_macro/golden/dataset1.bin");
    let mut r = crate::refmodel::Rd::new(&bytes[..]);
    // #[evolution(FieldMadeOptional("option"), FieldAdded("string", ..), FieldAdded("set", ..))]
    assert_eq!(r.u8(), Some(3), "stored version");
    let chunk0 = r.vari().unwrap();
    assert!(chunk0 > 0, "chunk 0 size");
    assert_eq!(r.vari(), Some(-1), "FieldMadeOptional step code");
    let pos = r.u8().unwrap() as i8;
    assert!(pos < 0, "position byte of a chunk-0 field is minus its index");
    let chunk2 = r.vari().unwrap();
    let chunk3 = r.vari().unwrap();
    assert!(chunk2 > 0 && chunk3 > 0);
    // header + chunks account for the whole file
    assert_eq!(r.pos + (chunk0 + chunk2 + chunk3) as usize, bytes.len());
}
