//! C10 — reference tracking preserves graph shape, sharing and cycles.
//! A user codec built on the public API (identity = address of the node's heap cell).
use crate::refmodel::{Buf, Shape};
use crate::sym;
use desert_core::{BinaryInput, BinaryOutput, DeserializationContext, SerializationContext};
use std::cell::RefCell;
use std::rc::Rc;

pub struct Node {
    label: u8,
    next: Option<NodeRef>,
}
type NodeRef = Rc<RefCell<Node>>;

fn ser_node<O: BinaryOutput>(n: &NodeRef, ctx: &mut SerializationContext<O>) -> desert_core::Result<()> {
    let node = n.borrow();
    ctx.write_u8(node.label);
    match &node.next {
        Some(next) => {
            ctx.write_u8(1);
            if ctx.store_ref_or_object(&**next)? {
                ser_node(next, ctx)?;
            }
        }
        None => ctx.write_u8(0),
    }
    Ok(())
}

fn ser_root<O: BinaryOutput>(root: &NodeRef, ctx: &mut SerializationContext<O>) -> desert_core::Result<()> {
    if ctx.store_ref_or_object(&**root)? {
        ser_node(root, ctx)?;
    }
    Ok(())
}

fn de_node(ctx: &mut DeserializationContext<'_>) -> desert_core::Result<NodeRef> {
    let label = ctx.read_u8()?;
    let result: NodeRef = Rc::new(RefCell::new(Node { label, next: None }));
    // a slot that outlives the stream (the object table keeps raw pointers)
    let slot: &'static NodeRef = Box::leak(Box::new(result.clone()));
    ctx.state_mut().store_ref(slot);
    let has_next = ctx.read_u8()? != 0;
    if has_next {
        let next = match ctx.try_read_ref()? {
            Some(r) => match r.downcast_ref::<NodeRef>() {
                Some(n) => Some(n.clone()),
                None => None,
            },
            None => None,
        };
        match next {
            Some(n) => result.borrow_mut().next = Some(n),
            None => {
                let n = de_node(ctx)?;
                result.borrow_mut().next = Some(n);
            }
        }
    }
    Ok(result)
}

fn de_root(ctx: &mut DeserializationContext<'_>) -> desert_core::Result<NodeRef> {
    let known = match ctx.try_read_ref()? {
        Some(r) => match r.downcast_ref::<NodeRef>() {
            Some(n) => Some(n.clone()),
            None => None,
        },
        None => None,
    };
    match known {
        Some(n) => Ok(n),
        None => de_node(ctx),
    }
}

/// rooted graphs with out-degree <= 1 on <= 3 nodes ("rho" shapes): a chain of k nodes whose last
/// node points nowhere or back to any node of the chain (self-loop, back-edge, full cycle)
fn build(k: usize, tail: usize, labels: [u8; 3]) -> [Option<NodeRef>; 3] {
    let mk = |i: usize| -> NodeRef { Rc::new(RefCell::new(Node { label: labels[i], next: None })) };
    let n0 = mk(0);
    let n1 = if k > 1 { Some(mk(1)) } else { None };
    let n2 = if k > 2 { Some(mk(2)) } else { None };
    if let Some(n1) = &n1 {
        n0.borrow_mut().next = Some(n1.clone());
        if let Some(n2) = &n2 {
            n1.borrow_mut().next = Some(n2.clone());
        }
    }
    let nodes = [Some(n0), n1, n2];
    if tail > 0 {
        let target = match &nodes[tail - 1] { Some(t) => t.clone(), None => unreachable!() };
        match &nodes[k - 1] { Some(last) => last.borrow_mut().next = Some(target), None => unreachable!() }
    }
    nodes
}

fn reference_stream(k: usize, tail: usize, labels: [u8; 3]) -> Buf {
    let mut b = Buf::new();
    b.varu(0); // root: first encounter
    let mut i = 0;
    while i < k {
        b.u8(labels[i]);
        if i + 1 < k {
            b.u8(1);
            b.varu(0); // node i+1: first encounter, body follows
        } else if tail == 0 {
            b.u8(0);
        } else {
            b.u8(1);
            b.varu(tail as u32); // 1-based first-encounter number of the target
        }
        i += 1;
    }
    b
}

fn check_shape(k: usize, tail: usize) {
    let labels: [u8; 3] = sym::bytes();
    let nodes = build(k, tail, labels);
    let root = match &nodes[0] { Some(r) => r.clone(), None => unreachable!() };
    let reference = reference_stream(k, tail, labels);
    // encode: terminates (recursion is unwound with the harness bound) and writes each node once
    let mut sctx = SerializationContext::new(Vec::new());
    match ser_root(&root, &mut sctx) {
        Ok(()) => {}
        Err(e) => { std::mem::forget(e); assert!(false, "encoding a graph failed"); }
    }
    let out = sctx.into_output();
    crate::checks::assert_bytes_eq(&out, &reference);
    std::mem::forget(out);
    // decode the reference stream
    let mut dctx = DeserializationContext::new(&reference.b[..reference.n]);
    match de_root(&mut dctx) {
        Ok(d0) => {
            let d1 = d0.borrow().next.clone();
            assert!(d0.borrow().label == labels[0]);
            let mut decoded: [Option<NodeRef>; 3] = [Some(d0.clone()), None, None];
            let mut last = d0.clone();
            if k > 1 {
                let d1 = match d1 { Some(x) => x, None => { assert!(false, "edge lost"); return; } };
                assert!(d1.borrow().label == labels[1]);
                assert!(!Rc::ptr_eq(&d1, &d0), "distinct nodes were merged");
                last = d1.clone();
                if k > 2 {
                    let d2 = match d1.borrow().next.clone() { Some(x) => x, None => { assert!(false, "edge lost"); return; } };
                    assert!(d2.borrow().label == labels[2]);
                    assert!(!Rc::ptr_eq(&d2, &d0) && !Rc::ptr_eq(&d2, &d1), "distinct nodes were merged");
                    last = d2.clone();
                    decoded[2] = Some(d2);
                }
                decoded[1] = Some(d1);
            }
            let tail_next = last.borrow().next.clone();
            if tail == 0 {
                assert!(tail_next.is_none(), "an edge was invented");
            } else {
                match (tail_next, &decoded[tail - 1]) {
                    (Some(t), Some(target)) => assert!(Rc::ptr_eq(&t, target), "a shared node was not shared again after decoding"),
                    _ => assert!(false, "back-edge lost"),
                }
            }
            cover!(true);
            std::mem::forget(decoded);
        }
        Err(e) => { std::mem::forget(e); assert!(false, "decoding a graph failed"); }
    }
    std::mem::forget(dctx);
    std::mem::forget(nodes);
}

macro_rules! graph {
    ($name:ident, $k:expr, $tail:expr) => {
        proof! {
            fn $name() unwind(6) { check_shape($k, $tail); }
        }
    };
}
//@ props=C10 tier=quick bounds=graph:1-node,no-edge;labels-symbolic
graph!(c10_graph_1_none, 1, 0);
//@ props=C10 tier=off bounds=graph:1-node,self-loop;labels-symbolic
graph!(c10_graph_1_self, 1, 1);
//@ props=C10 tier=thorough bounds=graph:2-node-chain;labels-symbolic
graph!(c10_graph_2_none, 2, 0);
//@ props=C10 tier=off bounds=graph:2-cycle;labels-symbolic cap=2400
graph!(c10_graph_2_cycle, 2, 1);
//@ props=C10 tier=off bounds=graph:2-nodes,self-loop-on-second;labels-symbolic
graph!(c10_graph_2_self, 2, 2);
//@ props=C10 tier=off bounds=graph:3-node-chain;labels-symbolic cap=900
graph!(c10_graph_3_none, 3, 0);
//@ props=C10 tier=off bounds=graph:3-cycle;labels-symbolic cap=900
graph!(c10_graph_3_cycle, 3, 1);
//@ props=C10 tier=off bounds=graph:3-nodes,back-edge-to-second;labels-symbolic cap=2400
graph!(c10_graph_3_back, 3, 2);
//@ props=C10 tier=off bounds=graph:3-nodes,self-loop-on-third;labels-symbolic cap=2400
graph!(c10_graph_3_self, 3, 3);

proof! {
    //@ props=C10,C05 tier=off bounds=stream:new-root,label,has-next,id-symbolic(1-byte-varint)>=2
    fn c10_unknown_ref_id() unwind(6) {
        let mut data: [u8; 4] = sym::bytes();
        data[0] = 0;
        data[2] = 1;
        data[3] = data[3] & 0x7f;
        sym::assume(data[3] >= 2);
        let mut dctx = DeserializationContext::new(&data);
        match de_root(&mut dctx) {
            Ok(n) => { std::mem::forget(n); assert!(false, "a reference to an object that was never introduced was accepted"); }
            Err(e) => {
                assert!(matches!(e, desert_core::Error::InvalidRefId(_)));
                std::mem::forget(e);
            }
        }
        std::mem::forget(dctx);
    }
}

proof! {
    //@ props=C10,C05 tier=quick bounds=try_read_ref:fresh-context,id-symbolic(all-5-byte-varints)
    fn c10_try_read_ref_fresh() unwind(8) {
        let data: [u8; 5] = sym::bytes();
        let len = sym::index_below(6);
        let mut dctx = DeserializationContext::new(&data[..len]);
        let mut rd = crate::refmodel::Rd::new(&data[..len]);
        let id = rd.varu();
        match dctx.try_read_ref() {
            Ok(None) => assert!(id == Some(0)),
            Ok(Some(_)) => assert!(false, "a fresh stream has no objects"),
            Err(e) => {
                assert!(id != Some(0));
                std::mem::forget(e);
            }
        }
        std::mem::forget(dctx);
    }
}


/// Histories of offers, independent of any graph codec: every sequence of `LEN` offers of up to
/// three distinct objects (all 14 canonical sequences of length 4 - first occurrences in the order
/// x, y, z - enumerated with concrete structure; there is no payload to make symbolic). The stream
/// must contain the new-marker on the first offer of an object and its 1-based first-encounter
/// number on every later one: numbers count distinct objects only.
fn offer_sequence(seq: &[usize]) {
    let objs: [&'static u8; 3] = [Box::leak(Box::new(1u8)), Box::leak(Box::new(2u8)), Box::leak(Box::new(3u8))];
    let mut sctx = SerializationContext::new(Vec::new());
    let mut first_id: [u32; 3] = [0; 3];
    let mut distinct: u32 = 0;
    let mut expected = Buf::new();
    let mut i = 0;
    while i < seq.len() {
        let k = seq[i];
        let is_new = match sctx.store_ref_or_object(objs[k]) {
            Ok(b) => b,
            Err(e) => { std::mem::forget(e); assert!(false); false }
        };
        if first_id[k] == 0 {
            distinct += 1;
            first_id[k] = distinct;
            assert!(is_new, "the first offer of an object was not reported as new");
            expected.varu(0);
        } else {
            assert!(!is_new, "a repeated offer was reported as new");
            expected.varu(first_id[k]);
        }
        i += 1;
    }
    let out = sctx.into_output();
    crate::checks::assert_bytes_eq(&out, &expected);
    std::mem::forget(out);
    std::mem::forget(sctx_drop_guard());
}
fn sctx_drop_guard() {}

proof! {
    //@ props=C10 tier=off bounds=history:offers-x,x,y,y(repeat-then-new-object-then-its-repeat) cap=900
    fn c10_offer_sequence_xxyy() unwind(6) {
        offer_sequence(&[0, 0, 1, 1]);
        cover!(true);
    }
}

proof! {
    //@ props=C10 tier=off bounds=history:offers-x,y,x,z,y,z cap=2400
    fn c10_offer_sequence_xyxzyz() unwind(8) {
        offer_sequence(&[0, 1, 0, 2, 1, 2]);
        cover!(true);
    }
}

proof! {
    //@ props=C10 tier=off bounds=history:all-14-canonical-sequences-of-4-offers-over-3-objects(concrete) cap=900
    fn c10_offer_sequences_4() unwind(6) {
        offer_sequence(&[0, 0, 0, 0]); offer_sequence(&[0, 0, 0, 1]); offer_sequence(&[0, 0, 1, 0]);
        offer_sequence(&[0, 0, 1, 1]); offer_sequence(&[0, 0, 1, 2]); offer_sequence(&[0, 1, 0, 0]);
        offer_sequence(&[0, 1, 0, 1]); offer_sequence(&[0, 1, 0, 2]); offer_sequence(&[0, 1, 1, 0]);
        offer_sequence(&[0, 1, 1, 1]); offer_sequence(&[0, 1, 1, 2]); offer_sequence(&[0, 1, 2, 0]);
        offer_sequence(&[0, 1, 2, 1]); offer_sequence(&[0, 1, 2, 2]);
        cover!(true);
    }
}

proof! {
    //@ props=C10 tier=quick bounds=history:offer-x,offer-x-again,then-register-y:y-gets-number-2(numbers-count-distinct-objects,not-offers);observed-through-the-object-table cap=900
    fn c10_numbering_counts_distinct_objects() unwind(6) {
        use desert_core::serializer::StoreRefResult;
        let x: &'static u8 = Box::leak(Box::new(1u8));
        let y: &'static u8 = Box::leak(Box::new(2u8));
        let mut ctx = SerializationContext::new(Vec::new());
        match ctx.store_ref_or_object(x) { Ok(is_new) => assert!(is_new, "first offer not reported as new"), Err(e) => { std::mem::forget(e); assert!(false); } }
        match ctx.store_ref_or_object(x) { Ok(is_new) => assert!(!is_new, "repeated offer reported as new"), Err(e) => { std::mem::forget(e); assert!(false); } }
        match ctx.state_mut().store_ref(y) {
            StoreRefResult::RefIsNew { new_id, .. } => assert!(new_id.0 == 2, "object numbers must count distinct objects, not offers"),
            StoreRefResult::RefAlreadyStored { .. } => assert!(false, "a distinct object was taken for a known one"),
        }
        let out = ctx.into_output();
        // new marker, then the 1-based number of x
        assert!(out.len() == 2 && out[0] == 0 && out[1] == 1);
        cover!(true);
        std::mem::forget(out);
    }
}
