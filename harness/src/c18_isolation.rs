//! C18 — calls are isolated and deterministic (sequential histories only; thread schedules are
//! outside Kani's model and outside this claim).
#![allow(unused_imports)]
use crate::catalogue::*;
use crate::checks::{dec_check, enc_check};
use crate::refmodel::{Buf, Model, Shape};
use crate::sym;
use desert_core::DeduplicatedString;

proof! {
    //@ props=C18 tier=quick bounds=history:prior-encode(any-E3)+prior-decode(any-3-bytes-as-P2)-then-encode+decode-of-any-P2:results==reference;repeat-encode-same-bytes cap=900
    fn c18_second_call_independent() unwind(4) {
        let mut sh = Shape::symbolic(0, 0);
        // prior calls: encode an arbitrary E3 ...
        let first: E3 = Model::arb(&mut sh);
        match desert_core::serialize_to_byte_vec(&first) { Ok(o) => std::mem::forget(o), Err(e) => std::mem::forget(e) }
        // ... and decode an arbitrary version-0 buffer as P2
        let mut junk: [u8; 4] = sym::bytes();
        junk[0] = 0;
        match desert_core::deserialize::<P2>(&junk) { Ok(o) => std::mem::forget(o), Err(e) => std::mem::forget(e) }
        // the calls under test: results are those of a fresh process (the reference)
        let second: P2 = Model::arb(&mut sh);
        enc_check(&second);
        dec_check(&second);
        // repeating a call yields the same bytes
        enc_check(&second);
    }
}

proof! {
    //@ props=C18,C09 tier=off bounds=history:two-calls-each-writing-the-same-deduplicated-string-twice;ids-restart cap=900
    fn c18_dedup_ids_restart() unwind(6) {
        let c = sym::u8_();
        sym::assume(c < 0x80);
        let v = (DeduplicatedString(String::from_utf8(vec![c]).unwrap_or_default()), DeduplicatedString(String::from_utf8(vec![c]).unwrap_or_default()));
        let mut r = Buf::new();
        r.u8(0);
        r.dedup_str(&[c]);
        r.dedup_str(&[c]);
        let mut round = 0;
        while round < 2 {
            match desert_core::serialize(&v, Vec::new()) {
                Ok(out) => { crate::checks::assert_bytes_eq(&out, &r); std::mem::forget(out); }
                Err(e) => { std::mem::forget(e); assert!(false); }
            }
            round += 1;
        }
        assert!(r.n == 4 && r.b[3] == 1);
        std::mem::forget(v);
    }
}


proof! {
    //@ props=C18,C09 tier=quick bounds=history:one-finished-top-level-encode-that-registered-a-string(V3-header)+one-object-offer,then-a-new-context:string-and-object-numbering-start-at-1-again cap=900
    fn c18_numbering_restarts() unwind(6) {
        use desert_core::serializer::{StoreRefResult, StoreStringResult};
        use desert_core::SerializationContext;
        // first call: a record whose header registers the removed field name "b" as string 1
        let v = V3 { a: sym::u8_(), c: sym::u8_() };
        match desert_core::serialize(&v, Vec::new()) { Ok(o) => std::mem::forget(o), Err(e) => { std::mem::forget(e); assert!(false); } }
        // ... and a stream that tracked one object
        let obj: &'static u8 = Box::leak(Box::new(5u8));
        let mut first = SerializationContext::new(Vec::new());
        match first.store_ref_or_object(obj) { Ok(is_new) => assert!(is_new), Err(e) => { std::mem::forget(e); assert!(false); } }
        let out = first.into_output();
        std::mem::forget(out);
        // second call: a fresh stream numbers strings and objects from 1 again
        let mut second = SerializationContext::new(Vec::new());
        match second.state_mut().store_string("q".to_string()) {
            StoreStringResult::StringIsNew { new_id, value } => {
                assert!(new_id.0 == 1, "string numbering did not restart with the new call");
                std::mem::forget(value);
            }
            StoreStringResult::StringAlreadyStored { .. } => assert!(false, "a string of an earlier call is still known"),
        }
        let other: &'static u8 = Box::leak(Box::new(6u8));
        match second.state_mut().store_ref(other) {
            StoreRefResult::RefIsNew { new_id, .. } => assert!(new_id.0 == 1, "object numbering did not restart with the new call"),
            StoreRefResult::RefAlreadyStored { .. } => assert!(false, "an object of an earlier call is still known"),
        }
        cover!(true);
        std::mem::forget(second);
    }
}
