#!/usr/bin/env python3
"""Rewrites the tier= tags of the harness sources from measured timings (/tmp/timing.json):
   measured SUCCESS and t <= QUICK_MAX  -> tier stays as designated
   measured SUCCESS and t <= THOROUGH_MAX -> at most thorough
   timeout / out of memory / no data      -> tier=off (kept in the sources, excluded from both tiers)"""
import json, re, sys, os, importlib.machinery, importlib.util
QUICK_MAX = float(sys.argv[1]) if len(sys.argv) > 1 else 110.0
THOROUGH_MAX = float(sys.argv[2]) if len(sys.argv) > 2 else 560.0
l = importlib.machinery.SourceFileLoader('chk', '/verif/check'); spec = importlib.util.spec_from_loader('chk', l)
m = importlib.util.module_from_spec(spec); l.exec_module(m)
timing = json.load(open('/tmp/timing.json'))
hs = m.parse_harnesses()
want = {}   # harness name -> new tier
for h in hs.values():
    t = timing.get(h['path'])
    if t is None:
        continue
    st, secs = t
    if st != 'SUCCESS':
        want[h['name']] = 'off'
    elif secs is not None and secs > THOROUGH_MAX:
        want[h['name']] = 'off'
    elif secs is not None and secs > QUICK_MAX and h['tier'] == 'quick':
        want[h['name']] = 'thorough'
print(len(want), 'changes wanted'); print({k: v for k, v in want.items()})
# suites: a suite line has one tier for all kinds -> split off the kinds that need another tier
src = '/verif/harness/src'
for fn in sorted(os.listdir(src)):
    if not fn.endswith('.rs'): continue
    p = os.path.join(src, fn); s = open(p).read(); out = []
    for line in s.split('\n'):
        mm = re.match(r'^suite!\((\w+), (\d+), (\d+), (\d+), \[([\w ]*)\], (.*)\); //@ (.*)$', line)
        if mm:
            mod, a, b, c, kinds, ty, attrs = mm.groups()
            groups = {}
            for k in kinds.split():
                groups.setdefault(want.get('%s__%s' % (mod, k), None), []).append(k)
            if list(groups.keys()) == [None]:
                out.append(line); continue
            first = True
            for tier, ks in groups.items():
                at = attrs if tier is None else re.sub(r'tier=\w+', 'tier=' + tier, attrs)
                name = mod if first else '%s_%s' % (mod, tier or 'x')
                # module names must stay stable for the kinds that keep their tier: keep `mod` for the None group
                if tier is None: name = mod
                elif None in groups: name = '%s_%s' % (mod, tier)
                else: name = mod if first else '%s_%s' % (mod, tier)
                out.append('suite!(%s, %s, %s, %s, [%s], %s); //@ %s' % (name, a, b, c, ' '.join(ks), ty, at))
                first = False
            continue
        out.append(line)
    s2 = '\n'.join(out)
    # proof!/macro harness tags: the //@ line preceding `fn name()` or `macro!(name, ...`
    def retag(mt):
        tag, rest = mt.group(1), mt.group(2)
        nm = re.search(r'fn\s+(\w+)\s*\(\)|^\w+!\((\w+)', rest, re.M)
        return mt.group(0)
    lines = s2.split('\n')
    for i, line in enumerate(lines):
        if line.strip().startswith('//@'):
            # find the harness names this tag block belongs to
            j = i
            while j < len(lines) and lines[j].strip().startswith('//@'): j += 1
            if j >= len(lines): continue
            nxt = lines[j]
            names = []
            f = re.match(r'\s*(?:v0only\s+)?fn\s+(\w+)\s*\(\)', nxt)
            if f: names = [f.group(1)]
            else:
                g = re.match(r'^(\w+)!\((.*)$', nxt)
                if g: names = [a.strip() for a in g.group(2).split(',')]
            # which tag line of the block is this one?
            k0 = i
            while k0 > 0 and lines[k0 - 1].strip().startswith('//@'): k0 -= 1
            idx = i - k0
            if idx < len(names) and names[idx] in want:
                lines[i] = re.sub(r'tier=\w+', 'tier=' + want[names[idx]], line)
    s3 = '\n'.join(lines)
    if s3 != s:
        open(p, 'w').write(s3); print('rewrote', fn)
