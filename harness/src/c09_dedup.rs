//! C09 — string deduplication, as far as it is within reach: single streams with at most three
//! deduplicated writes / two reads of one-character strings (symbolic character). Longer histories,
//! strings in records with headers and interleavings with plain strings do not finish (DESIGN §10).
use crate::refmodel::{Buf, Rd};
use crate::sym;
use desert_core::{
    BinaryDeserializer, BinarySerializer, DeduplicatedString, DeserializationContext, Error,
    SerializationContext,
};

fn ascii() -> u8 {
    let c = sym::u8_();
    sym::assume(c < 0x80);
    c
}

fn one_char(c: u8) -> String {
    let mut s = String::new();
    s.push(c as char);
    s
}

fn write(ctx: &mut SerializationContext<Vec<u8>>, c: u8) {
    match DeduplicatedString(one_char(c)).serialize(ctx) {
        Ok(()) => {}
        Err(e) => { std::mem::forget(e); assert!(false); }
    }
}

proof! {
    // no verdict any more within 900 s (30 GB when run alone on the final tree; it was decided in
    // earlier runs): kept as a record, natively exercised
    //@ props=C04,C09 tier=off bounds=stream:one-deduplicated-string(1-ASCII-char,symbolic):byte-for-byte-a-plain-string cap=900
    fn c09_first_occurrence_is_plain() unwind(6) {
        let c = ascii();
        let mut ctx = SerializationContext::new(Vec::new());
        write(&mut ctx, c);
        let out = ctx.into_output();
        let mut r = Buf::new();
        r.str_(&[c]);
        crate::checks::assert_bytes_eq(&out, &r);
        match desert_core::serialize(&one_char(c), Vec::new()) {
            Ok(plain) => { crate::checks::assert_bytes_eq(&plain, &r); std::mem::forget(plain); }
            Err(e) => { std::mem::forget(e); assert!(false); }
        }
        std::mem::forget(out);
    }
}

proof! {
    //@ props=C09 tier=off bounds=stream:x,x(one-char-strings,symbolic-char):the-repeat-is-zigzag(-1) cap=900
    fn c09_repeat_is_back_reference() unwind(6) {
        let c = ascii();
        let mut ctx = SerializationContext::new(Vec::new());
        write(&mut ctx, c);
        write(&mut ctx, c);
        let out = ctx.into_output();
        let mut r = Buf::new();
        r.dedup_str(&[c]);
        r.dedup_str(&[c]);
        assert!(r.n == 3 && r.b[2] == 1);
        crate::checks::assert_bytes_eq(&out, &r);
        cover!(true);
        std::mem::forget(out);
    }
}

proof! {
    //@ props=C09 tier=off bounds=stream:x,y,x(one-char-strings,both-chars-symbolic,equal-or-not):ids-in-first-occurrence-order cap=2400
    fn c09_three_writes() unwind(6) {
        let c = ascii();
        let d = ascii();
        let mut ctx = SerializationContext::new(Vec::new());
        write(&mut ctx, c);
        write(&mut ctx, d);
        write(&mut ctx, c);
        let out = ctx.into_output();
        let mut r = Buf::new();
        r.dedup_str(&[c]);
        r.dedup_str(&[d]);
        r.dedup_str(&[c]);
        crate::checks::assert_bytes_eq(&out, &r);
        cover!(c == d);
        cover!(c != d);
        std::mem::forget(out);
    }
}

proof! {
    //@ props=C04,C09 tier=thorough bounds=decode:stream-x,back-reference-1:both-reads-yield-x cap=900
    fn c09_decode_back_reference() unwind(6) {
        let c = ascii();
        let data = [2u8, c, 1];
        let mut ctx = DeserializationContext::new(&data);
        match DeduplicatedString::deserialize(&mut ctx) {
            Ok(s) => { assert!(s.0.len() == 1 && s.0.as_bytes()[0] == c); std::mem::forget(s); }
            Err(e) => { std::mem::forget(e); assert!(false); }
        }
        match DeduplicatedString::deserialize(&mut ctx) {
            Ok(s) => { assert!(s.0.len() == 1 && s.0.as_bytes()[0] == c, "a back-reference decoded to another string"); cover!(true); std::mem::forget(s); }
            Err(e) => { std::mem::forget(e); assert!(false, "a back-reference to an introduced string was rejected"); }
        }
        std::mem::forget(ctx);
    }
}

fn unknown_id(data: &[u8]) {
    let mut ctx = DeserializationContext::new(data);
    match DeduplicatedString::deserialize(&mut ctx) {
        Ok(s) => { std::mem::forget(s); assert!(false, "an id that was never introduced was accepted"); }
        Err(e) => { assert!(matches!(e, Error::InvalidStringId(_))); std::mem::forget(e); }
    }
    std::mem::forget(ctx);
}

proof! {
    //@ props=C05,C09 tier=quick bounds=decode:fresh-stream,ids:-1,-2,-64,-65,i32::MIN(concrete-varints;a-symbolic-id-does-not-finish):InvalidStringId cap=900
    fn c09_unknown_id_is_error() unwind(8) {
        unknown_id(&[0x01]);
        unknown_id(&[0x03]);
        unknown_id(&[0x7f]);
        unknown_id(&[0x81, 0x01]);
        unknown_id(&[0xff, 0xff, 0xff, 0xff, 0x0f]);
        cover!(true);
    }
}

// A sink that keeps the bytes outside the context (so that the context, with its string table,
// can be `mem::forget`-ten instead of dropped) was tried for the two `tier=off` harnesses above:
// both still time out at 1000 s - the cost is in the second table lookup with a symbolic
// character, not in the drop glue.
// `c09_first_occurrence_is_plain` with the probe sink is *worse* (34 GB): the symbolic character
// written through the sink's byte loop, not the drop, dominates there.
