//! C11 — variable-length integers: total bijection with minimal length.
//! The quantifier of the property is met literally: `v` ranges over all 2^32 values.
use crate::refmodel::Buf;
use crate::sym;
use bytes::BytesMut;
use desert_core::{
    BinaryInput, BinaryOutput, DeserializationContext, OwnedInput, SizeCalculator, SliceInput,
};

fn zigzag(v: i32) -> u32 {
    if v >= 0 {
        (v as u32) * 2
    } else {
        ((-(v as i64)) as u32).wrapping_mul(2).wrapping_sub(1)
    }
}

/// number of bytes the format prescribes for the unsigned value `z`
fn ref_len(z: u32) -> usize {
    let bits = 32 - z.leading_zeros() as usize;
    if bits == 0 {
        1
    } else {
        (bits + 6) / 7
    }
}

fn check_layout(out: &[u8], z: u32) {
    let n = ref_len(z);
    assert!(out.len() == n, "varint length is not minimal");
    let mut r = Buf::new();
    r.varu(z);
    assert!(r.n == n);
    let mut i = 0;
    while i < 5 {
        if i < n {
            assert!(out[i] == r.b[i], "varint byte differs from the reference formula");
            // byte i carries bits 7i..7i+6 of the value
            assert!((out[i] & 0x7f) as u32 == (z >> (7 * i)) & 0x7f);
            if i + 1 < n {
                assert!(out[i] & 0x80 != 0, "continuation bit missing");
            } else {
                assert!(out[i] & 0x80 == 0, "continuation bit set on the last byte");
                assert!(n == 1 || out[i] != 0, "last byte of a multi-byte varint is zero");
            }
        }
        i += 1;
    }
    cover!(n == 1);
    cover!(n == 5);
}

proof! {
    //@ props=C11,C15,C01,C04 tier=quick
    fn c11_write_u32_vec() unwind(7) {
        let v = sym::u32_();
        let mut out: Vec<u8> = Vec::new();
        out.write_var_u32(v);
        check_layout(&out, v);
        std::mem::forget(out);
    }
}

proof! {
    //@ props=C11,C15,C01,C04 tier=quick
    fn c11_write_i32_vec() unwind(7) {
        let v = sym::i32_();
        let mut out: Vec<u8> = Vec::new();
        out.write_var_i32(v);
        check_layout(&out, zigzag(v));
        cover!(v == i32::MIN);
        cover!(v == -1 && out.len() == 1);
        std::mem::forget(out);
    }
}

proof! {
    //@ props=C11,C15 tier=quick
    fn c11_write_u32_bytesmut() unwind(7) {
        let v = sym::u32_();
        let mut out = BytesMut::new();
        out.write_var_u32(v);
        check_layout(&out[..], v);
        std::mem::forget(out);
    }
}

proof! {
    //@ props=C11,C15 tier=thorough
    fn c11_write_i32_bytesmut() unwind(7) {
        let v = sym::i32_();
        let mut out = BytesMut::new();
        out.write_var_i32(v);
        check_layout(&out[..], zigzag(v));
        std::mem::forget(out);
    }
}

proof! {
    //@ props=C11,C15 tier=quick
    fn c11_write_sizecalc() unwind(7) {
        let v = sym::u32_();
        let mut s = SizeCalculator::new();
        s.write_var_u32(v);
        assert!(s.size() == ref_len(v));
        let w = sym::i32_();
        let mut s = SizeCalculator::new();
        s.write_var_i32(w);
        assert!(s.size() == ref_len(zigzag(w)));
        cover!(s.size() == 5);
    }
}

/// reference bytes of `z`, padded with two arbitrary bytes that must stay unread
fn ref_bytes(z: u32) -> ([u8; 7], usize) {
    let mut r = Buf::new();
    r.varu(z);
    let mut b = [0u8; 7];
    let pad: [u8; 7] = sym::bytes();
    let mut i = 0;
    while i < 7 {
        b[i] = if i < r.n { r.b[i] } else { pad[i] };
        i += 1;
    }
    (b, r.n)
}

proof! {
    //@ props=C11,C15 tier=quick
    fn c11_read_u32_slice() unwind(9) {
        let v = sym::u32_();
        let (b, n) = ref_bytes(v);
        let mut inp = SliceInput::new(&b);
        assert!(matches!(inp.read_var_u32(), Ok(x) if x == v), "read_var_u32 does not invert the reference encoding");
        assert!(inp.pos == n, "cursor not advanced by the encoded length");
        cover!(n == 5);
    }
}

proof! {
    //@ props=C11,C15 tier=quick
    fn c11_read_i32_slice() unwind(9) {
        let v = sym::i32_();
        let (b, n) = ref_bytes(zigzag(v));
        let mut inp = SliceInput::new(&b);
        assert!(matches!(inp.read_var_i32(), Ok(x) if x == v), "read_var_i32 does not invert the reference encoding");
        assert!(inp.pos == n);
        cover!(v == i32::MIN);
    }
}

proof! {
    //@ props=C11,C15 tier=quick
    fn c11_read_u32_ctx() unwind(9) {
        let v = sym::u32_();
        let (b, n) = ref_bytes(v);
        let mut inp = DeserializationContext::new(&b);
        assert!(matches!(inp.read_var_u32(), Ok(x) if x == v));
        // the two bytes after the varint are the next ones read
        if n < 7 {
            assert!(matches!(inp.read_u8(), Ok(x) if x == b[n]));
        }
        cover!(n == 5);
        std::mem::forget(inp);
    }
}

proof! {
    //@ props=C11,C15 tier=quick
    fn c11_read_i32_ctx() unwind(9) {
        let v = sym::i32_();
        let (b, n) = ref_bytes(zigzag(v));
        let mut inp = DeserializationContext::new(&b);
        assert!(matches!(inp.read_var_i32(), Ok(x) if x == v));
        if n < 7 {
            assert!(matches!(inp.read_u8(), Ok(x) if x == b[n]));
        }
        std::mem::forget(inp);
    }
}

proof! {
    //@ props=C11,C15 tier=quick
    fn c11_read_u32_owned() unwind(9) {
        let v = sym::u32_();
        let (b, n) = ref_bytes(v);
        let mut inp = OwnedInput::new(b.to_vec());
        assert!(matches!(inp.read_var_u32(), Ok(x) if x == v));
        if n < 7 {
            assert!(matches!(inp.read_u8(), Ok(x) if x == b[n]));
        }
        std::mem::forget(inp);
    }
}

proof! {
    //@ props=C11,C15 tier=thorough
    fn c11_read_i32_owned() unwind(9) {
        let v = sym::i32_();
        let (b, n) = ref_bytes(zigzag(v));
        let mut inp = OwnedInput::new(b.to_vec());
        assert!(matches!(inp.read_var_i32(), Ok(x) if x == v));
        if n < 7 {
            assert!(matches!(inp.read_u8(), Ok(x) if x == b[n]));
        }
        std::mem::forget(inp);
    }
}

proof! {
    //@ props=C11,C01,C07 tier=quick
    fn c11_roundtrip_u32_vec_slice() unwind(7) {
        let v = sym::u32_();
        let mut out: Vec<u8> = Vec::new();
        out.write_var_u32(v);
        let mut inp = SliceInput::new(&out);
        assert!(matches!(inp.read_var_u32(), Ok(x) if x == v));
        assert!(inp.pos == out.len());
        std::mem::forget(out);
    }
}

proof! {
    //@ props=C11,C07 tier=quick
    fn c11_roundtrip_i32_bytesmut_ctx() unwind(7) {
        let v = sym::i32_();
        let mut out = BytesMut::new();
        out.write_var_i32(v);
        let mut inp = DeserializationContext::new(&out[..]);
        assert!(matches!(inp.read_var_i32(), Ok(x) if x == v));
        match inp.read_u8() {
            Ok(_) => assert!(false, "bytes left after the varint"),
            Err(e) => std::mem::forget(e),
        }
        std::mem::forget(inp);
        std::mem::forget(out);
    }
}
