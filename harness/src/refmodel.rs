//! Independent reference model of the desert wire format (DESIGN.md §4).
//!
//! Written from the format description, shares no code with desert_core: plain loops over a
//! fixed-size byte array. It is compiled into the harness binary and symbolically executed next to
//! the real code. `enc` is the reference encoder, `dec` the strict reference decoder that grants
//! exactly the leniencies of DESIGN.md §4.5.
#![allow(dead_code)]

use crate::sym;
use std::collections::LinkedList;
use std::rc::Rc;
use std::sync::Arc;
use std::time::Duration;

pub const CAP: usize = 48;
pub const MAXSTR: usize = 4; // dedup table entries
pub const STRW: usize = 8; // bytes kept per dedup entry

#[derive(Clone, Copy)]
pub struct DedupTable {
    pub len: [usize; MAXSTR],
    pub data: [[u8; STRW]; MAXSTR],
    pub n: usize,
}

impl DedupTable {
    pub fn new() -> Self {
        DedupTable {
            len: [0; MAXSTR],
            data: [[0; STRW]; MAXSTR],
            n: 0,
        }
    }
    pub fn find(&self, s: &[u8]) -> Option<usize> {
        let mut i = 0;
        while i < self.n {
            if self.len[i] == s.len() {
                let mut eq = true;
                let mut j = 0;
                while j < s.len() {
                    if self.data[i][j] != s[j] {
                        eq = false;
                    }
                    j += 1;
                }
                if eq {
                    return Some(i);
                }
            }
            i += 1;
        }
        None
    }
    pub fn add(&mut self, s: &[u8]) {
        let i = self.n;
        self.len[i] = s.len();
        let mut j = 0;
        while j < s.len() {
            self.data[i][j] = s[j];
            j += 1;
        }
        self.n += 1;
    }
}

/// Output of the reference encoder.
pub struct Buf {
    pub b: [u8; CAP],
    pub n: usize,
    pub strs: DedupTable,
}

impl Buf {
    pub fn new() -> Self {
        Buf {
            b: [0; CAP],
            n: 0,
            strs: DedupTable::new(),
        }
    }
    pub fn u8(&mut self, v: u8) {
        self.b[self.n] = v;
        self.n += 1;
    }
    pub fn bytes(&mut self, v: &[u8]) {
        let mut i = 0;
        while i < v.len() {
            self.u8(v[i]);
            i += 1;
        }
    }
    pub fn be2(&mut self, v: u16) {
        self.u8((v >> 8) as u8);
        self.u8(v as u8);
    }
    pub fn be4(&mut self, v: u32) {
        self.be2((v >> 16) as u16);
        self.be2(v as u16);
    }
    pub fn be8(&mut self, v: u64) {
        self.be4((v >> 32) as u32);
        self.be4(v as u32);
    }
    pub fn be16(&mut self, v: u128) {
        self.be8((v >> 64) as u64);
        self.be8(v as u64);
    }
    /// unsigned LEB128, minimal length (§4.2) – loop free so that it does not depend on unwinding
    pub fn varu(&mut self, v: u32) {
        if v < (1 << 7) {
            self.u8(v as u8);
        } else if v < (1 << 14) {
            self.u8((v & 0x7f) as u8 | 0x80);
            self.u8((v >> 7) as u8);
        } else if v < (1 << 21) {
            self.u8((v & 0x7f) as u8 | 0x80);
            self.u8(((v >> 7) & 0x7f) as u8 | 0x80);
            self.u8((v >> 14) as u8);
        } else if v < (1 << 28) {
            self.u8((v & 0x7f) as u8 | 0x80);
            self.u8(((v >> 7) & 0x7f) as u8 | 0x80);
            self.u8(((v >> 14) & 0x7f) as u8 | 0x80);
            self.u8((v >> 21) as u8);
        } else {
            self.u8((v & 0x7f) as u8 | 0x80);
            self.u8(((v >> 7) & 0x7f) as u8 | 0x80);
            self.u8(((v >> 14) & 0x7f) as u8 | 0x80);
            self.u8(((v >> 21) & 0x7f) as u8 | 0x80);
            self.u8((v >> 28) as u8);
        }
    }
    /// zig-zag then LEB128
    pub fn vari(&mut self, v: i32) {
        let z = if v >= 0 {
            (v as u32) * 2
        } else {
            ((-(v as i64)) as u32).wrapping_mul(2).wrapping_sub(1)
        };
        self.varu(z);
    }
    pub fn str_(&mut self, s: &[u8]) {
        self.vari(s.len() as i32);
        self.bytes(s);
    }
    pub fn dedup_str(&mut self, s: &[u8]) {
        match self.strs.find(s) {
            Some(i) => self.vari(-((i + 1) as i32)),
            None => {
                self.strs.add(s);
                self.str_(s);
            }
        }
    }
    pub fn slice(&self) -> &[u8] {
        &self.b[..self.n]
    }
}

/// Input of the reference decoder.
pub struct Rd<'a> {
    pub b: &'a [u8],
    pub pos: usize,
    pub strs: DedupTable,
}

impl<'a> Rd<'a> {
    pub fn new(b: &'a [u8]) -> Self {
        Rd {
            b,
            pos: 0,
            strs: DedupTable::new(),
        }
    }
    pub fn remaining(&self) -> usize {
        self.b.len() - self.pos
    }
    pub fn u8(&mut self) -> Option<u8> {
        if self.pos < self.b.len() {
            let v = self.b[self.pos];
            self.pos += 1;
            Some(v)
        } else {
            None
        }
    }
    pub fn bytes(&mut self, n: usize) -> Option<&'a [u8]> {
        if n <= self.remaining() {
            let r = &self.b[self.pos..self.pos + n];
            self.pos += n;
            Some(r)
        } else {
            None
        }
    }
    pub fn be2(&mut self) -> Option<u16> {
        if self.remaining() < 2 {
            return None;
        }
        let a = self.u8()? as u16;
        let b = self.u8()? as u16;
        Some(a << 8 | b)
    }
    pub fn be4(&mut self) -> Option<u32> {
        if self.remaining() < 4 {
            return None;
        }
        let a = self.be2()? as u32;
        let b = self.be2()? as u32;
        Some(a << 16 | b)
    }
    pub fn be8(&mut self) -> Option<u64> {
        if self.remaining() < 8 {
            return None;
        }
        let a = self.be4()? as u64;
        let b = self.be4()? as u64;
        Some(a << 32 | b)
    }
    pub fn be16(&mut self) -> Option<u128> {
        if self.remaining() < 16 {
            return None;
        }
        let a = self.be8()? as u128;
        let b = self.be8()? as u128;
        Some(a << 64 | b)
    }
    /// LEB128 of at most five bytes; leniency §4.5(b): non-minimal forms are accepted, bits above
    /// 32 in the fifth byte (and its continuation bit) are dropped.
    pub fn varu(&mut self) -> Option<u32> {
        let mut r: u64 = 0;
        let mut k = 0;
        while k < 5 {
            let b = self.u8()?;
            r |= ((b & 0x7f) as u64) << (7 * k);
            if b & 0x80 == 0 {
                return Some(r as u32);
            }
            k += 1;
        }
        Some(r as u32)
    }
    pub fn vari(&mut self) -> Option<i32> {
        let z = self.varu()?;
        Some(if z & 1 == 0 {
            (z >> 1) as i32
        } else {
            -((z >> 1) as i64 + 1) as i32
        })
    }
}

/// Concrete "shape" choices (option/result discriminants, lengths, widths) of a value: an odometer
/// over the tree of choices, so that a harness can enumerate every shape with concrete structure
/// bytes while all payload bits stay symbolic (DESIGN.md H2). In symbolic mode the choices are
/// free variables as well.
pub struct Shape {
    digits: [u8; 8],
    radix: [u8; 8],
    used: usize,
    symbolic: bool,
    pub done: bool,
    /// maximal number of elements of a sequence
    pub maxv: u8,
    /// maximal number of characters of a string
    pub maxs: u8,
    pub count: u32,
}

impl Shape {
    pub fn concrete(maxv: u8, maxs: u8) -> Self {
        Shape {
            digits: [0; 8],
            radix: [1; 8],
            used: 0,
            symbolic: false,
            done: false,
            maxv,
            maxs,
            count: 0,
        }
    }
    pub fn symbolic(maxv: u8, maxs: u8) -> Self {
        let mut s = Self::concrete(maxv, maxs);
        s.symbolic = true;
        s
    }
    pub fn choice(&mut self, n: u8) -> u8 {
        if self.symbolic {
            sym::below(n)
        } else {
            let i = self.used;
            self.radix[i] = n;
            self.used += 1;
            self.digits[i]
        }
    }
    pub fn begin(&mut self) {
        self.used = 0;
    }
    /// advance to the next shape (depth-first order); sets `done` after the last one
    pub fn advance(&mut self) {
        self.count += 1;
        if self.symbolic {
            self.done = true;
            return;
        }
        let mut i = self.used;
        while i > 0 {
            i -= 1;
            if self.digits[i] + 1 < self.radix[i] {
                self.digits[i] += 1;
                return;
            } else {
                self.digits[i] = 0;
            }
        }
        self.done = true;
    }
}

pub trait Model: Sized {
    /// true for `u8`: containers of it use the byte-array form
    const IS_BYTE: bool = false;
    fn arb(sh: &mut Shape) -> Self;
    fn enc(&self, b: &mut Buf);
    fn dec(r: &mut Rd) -> Option<Self>;
    fn same(&self, o: &Self) -> bool;
    fn as_byte(&self) -> u8 {
        0
    }
    fn from_byte(_b: u8) -> Option<Self> {
        None
    }
}

macro_rules! int_model {
    ($t:ty, $any:ident, $put:ident, $get:ident, $ut:ty) => {
        impl Model for $t {
            fn arb(_sh: &mut Shape) -> Self {
                sym::$any()
            }
            fn enc(&self, b: &mut Buf) {
                b.$put(*self as $ut);
            }
            fn dec(r: &mut Rd) -> Option<Self> {
                Some(r.$get()? as $t)
            }
            fn same(&self, o: &Self) -> bool {
                *self == *o
            }
        }
    };
}

impl Model for u8 {
    const IS_BYTE: bool = true;
    fn arb(_sh: &mut Shape) -> Self {
        sym::u8_()
    }
    fn enc(&self, b: &mut Buf) {
        b.u8(*self);
    }
    fn dec(r: &mut Rd) -> Option<Self> {
        r.u8()
    }
    fn same(&self, o: &Self) -> bool {
        *self == *o
    }
    fn as_byte(&self) -> u8 {
        *self
    }
    fn from_byte(b: u8) -> Option<Self> {
        Some(b)
    }
}
int_model!(i8, i8_, u8, u8, u8);
int_model!(u16, u16_, be2, be2, u16);
int_model!(i16, i16_, be2, be2, u16);
int_model!(u32, u32_, be4, be4, u32);
int_model!(i32, i32_, be4, be4, u32);
int_model!(u64, u64_, be8, be8, u64);
int_model!(i64, i64_, be8, be8, u64);
int_model!(u128, u128_, be16, be16, u128);
int_model!(i128, i128_, be16, be16, u128);

impl Model for f32 {
    fn arb(_sh: &mut Shape) -> Self {
        f32::from_bits(sym::u32_())
    }
    fn enc(&self, b: &mut Buf) {
        b.be4(self.to_bits());
    }
    fn dec(r: &mut Rd) -> Option<Self> {
        Some(f32::from_bits(r.be4()?))
    }
    fn same(&self, o: &Self) -> bool {
        self.to_bits() == o.to_bits()
    }
}

impl Model for f64 {
    fn arb(_sh: &mut Shape) -> Self {
        f64::from_bits(sym::u64_())
    }
    fn enc(&self, b: &mut Buf) {
        b.be8(self.to_bits());
    }
    fn dec(r: &mut Rd) -> Option<Self> {
        Some(f64::from_bits(r.be8()?))
    }
    fn same(&self, o: &Self) -> bool {
        self.to_bits() == o.to_bits()
    }
}

impl Model for bool {
    fn arb(_sh: &mut Shape) -> Self {
        sym::bool_()
    }
    fn enc(&self, b: &mut Buf) {
        b.u8(if *self { 1 } else { 0 });
    }
    fn dec(r: &mut Rd) -> Option<Self> {
        Some(r.u8()? != 0) // §4.5(a)
    }
    fn same(&self, o: &Self) -> bool {
        *self == *o
    }
}

impl Model for () {
    fn arb(_sh: &mut Shape) -> Self {}
    fn enc(&self, _b: &mut Buf) {}
    fn dec(_r: &mut Rd) -> Option<Self> {
        Some(())
    }
    fn same(&self, _o: &Self) -> bool {
        true
    }
}

/// `char` values that the format supports: one UTF-16 unit.
impl Model for char {
    fn arb(_sh: &mut Shape) -> Self {
        let c = sym::char_();
        sym::assume((c as u32) <= 0xFFFF);
        c
    }
    fn enc(&self, b: &mut Buf) {
        b.be2(*self as u32 as u16);
    }
    fn dec(r: &mut Rd) -> Option<Self> {
        let u = r.be2()?;
        if (0xD800..=0xDFFF).contains(&u) {
            None
        } else {
            char::from_u32(u as u32)
        }
    }
    fn same(&self, o: &Self) -> bool {
        *self == *o
    }
}

/// A valid UTF-8 string of `n` characters whose widths (1..=3 bytes) are concrete shape choices
/// and whose code points are symbolic: built bytewise so that no symbolic length ever exists.
pub fn arb_utf8(sh: &mut Shape) -> Vec<u8> {
    let n = sh.choice(sh.maxs + 1);
    let mut v: Vec<u8> = Vec::new();
    let mut i = 0;
    while i < n {
        let w = sh.choice(3) + 1;
        let c = sym::char_of_width(w as usize) as u32;
        if w == 1 {
            v.push(c as u8);
        } else if w == 2 {
            v.push(0xC0 | (c >> 6) as u8);
            v.push(0x80 | (c & 0x3f) as u8);
        } else {
            v.push(0xE0 | (c >> 12) as u8);
            v.push(0x80 | ((c >> 6) & 0x3f) as u8);
            v.push(0x80 | (c & 0x3f) as u8);
        }
        i += 1;
    }
    v
}

impl Model for String {
    fn arb(sh: &mut Shape) -> Self {
        let v = arb_utf8(sh);
        #[cfg(not(kani))]
        assert!(std::str::from_utf8(&v).is_ok());
        // valid by construction (checked natively above); avoids running the validator on the
        // harness side of the query
        unsafe { String::from_utf8_unchecked(v) }
    }
    fn enc(&self, b: &mut Buf) {
        b.str_(self.as_bytes());
    }
    fn dec(r: &mut Rd) -> Option<Self> {
        let n = r.vari()?;
        if n < 0 {
            return None;
        }
        let bytes = r.bytes(n as usize)?;
        match std::str::from_utf8(bytes) {
            Ok(s) => Some(s.to_string()),
            Err(_) => None,
        }
    }
    fn same(&self, o: &Self) -> bool {
        let a = self.as_bytes();
        let b = o.as_bytes();
        if a.len() != b.len() {
            return false;
        }
        let mut i = 0;
        let mut eq = true;
        while i < a.len() {
            if a[i] != b[i] {
                eq = false;
            }
            i += 1;
        }
        eq
    }
}

impl Model for Duration {
    fn arb(_sh: &mut Shape) -> Self {
        let secs = sym::u64_();
        let nanos = sym::u32_();
        sym::assume(nanos < 1_000_000_000);
        Duration::new(secs, nanos)
    }
    fn enc(&self, b: &mut Buf) {
        b.be8(self.as_secs());
        b.be4(self.subsec_nanos());
    }
    fn dec(r: &mut Rd) -> Option<Self> {
        let secs = r.be8()?;
        let nanos = r.be4()?;
        let carry = (nanos / 1_000_000_000) as u64;
        let secs = secs.checked_add(carry)?;
        Some(Duration::new(secs, nanos % 1_000_000_000))
    }
    fn same(&self, o: &Self) -> bool {
        self.as_secs() == o.as_secs() && self.subsec_nanos() == o.subsec_nanos()
    }
}

impl<T: Model> Model for Option<T> {
    fn arb(sh: &mut Shape) -> Self {
        if sh.choice(2) == 1 {
            Some(T::arb(sh))
        } else {
            None
        }
    }
    fn enc(&self, b: &mut Buf) {
        match self {
            None => b.u8(0),
            Some(v) => {
                b.u8(1);
                v.enc(b);
            }
        }
    }
    fn dec(r: &mut Rd) -> Option<Self> {
        match r.u8()? {
            0 => Some(None),
            1 => Some(Some(T::dec(r)?)),
            _ => None,
        }
    }
    fn same(&self, o: &Self) -> bool {
        match (self, o) {
            (None, None) => true,
            (Some(a), Some(b)) => a.same(b),
            _ => false,
        }
    }
}

impl<R: Model, E: Model> Model for Result<R, E> {
    fn arb(sh: &mut Shape) -> Self {
        if sh.choice(2) == 1 {
            Ok(R::arb(sh))
        } else {
            Err(E::arb(sh))
        }
    }
    fn enc(&self, b: &mut Buf) {
        match self {
            Err(e) => {
                b.u8(0);
                e.enc(b);
            }
            Ok(v) => {
                b.u8(1);
                v.enc(b);
            }
        }
    }
    fn dec(r: &mut Rd) -> Option<Self> {
        match r.u8()? {
            0 => Some(Err(E::dec(r)?)),
            1 => Some(Ok(R::dec(r)?)),
            _ => None,
        }
    }
    fn same(&self, o: &Self) -> bool {
        match (self, o) {
            (Ok(a), Ok(b)) => a.same(b),
            (Err(a), Err(b)) => a.same(b),
            _ => false,
        }
    }
}

/// Sequence element lists, shared by Vec / LinkedList / arrays.
pub fn enc_seq<'a, T: Model + 'a>(items: impl Iterator<Item = &'a T>, len: usize, b: &mut Buf) {
    if T::IS_BYTE {
        b.varu(len as u32);
        for x in items {
            b.u8(x.as_byte());
        }
    } else {
        b.vari(len as i32);
        for x in items {
            x.enc(b);
        }
    }
}

/// Reference decoder of a sequence into a Vec; `max` bounds the element count the model keeps
/// (a longer list is reported as `None`, harnesses never produce one).
pub fn dec_seq<T: Model>(r: &mut Rd, max: usize) -> Option<Vec<T>> {
    let mut out = Vec::new();
    if T::IS_BYTE {
        let n = r.varu()? as usize;
        if n > r.remaining() || n > max {
            return None;
        }
        let mut i = 0;
        while i < n {
            out.push(T::from_byte(r.u8()?)?);
            i += 1;
        }
        return Some(out);
    }
    let n = r.vari()?;
    if n == -1 {
        // unknown-length form: (1 item)* 0
        let mut i = 0;
        while i <= max {
            match r.u8()? {
                0 => return Some(out),
                1 => {
                    if i == max {
                        return None;
                    }
                    out.push(T::dec(r)?)
                }
                _ => return None,
            }
            i += 1;
        }
        None
    } else if n < -1 {
        None
    } else {
        if n as usize > max {
            return None;
        }
        let mut i = 0;
        while i < n {
            out.push(T::dec(r)?);
            i += 1;
        }
        Some(out)
    }
}

pub const DEC_MAX: usize = 8;

fn same_iter<'a, T: Model + 'a>(
    mut a: impl Iterator<Item = &'a T>,
    mut b: impl Iterator<Item = &'a T>,
) -> bool {
    loop {
        match (a.next(), b.next()) {
            (None, None) => return true,
            (Some(x), Some(y)) => {
                if !x.same(y) {
                    return false;
                }
            }
            _ => return false,
        }
    }
}

impl<T: Model> Model for Vec<T> {
    fn arb(sh: &mut Shape) -> Self {
        let n = sh.choice(sh.maxv + 1);
        let mut v = Vec::new();
        let mut i = 0;
        while i < n {
            v.push(T::arb(sh));
            i += 1;
        }
        v
    }
    fn enc(&self, b: &mut Buf) {
        enc_seq(self.iter(), self.len(), b);
    }
    fn dec(r: &mut Rd) -> Option<Self> {
        dec_seq(r, DEC_MAX)
    }
    fn same(&self, o: &Self) -> bool {
        self.len() == o.len() && same_iter(self.iter(), o.iter())
    }
}

impl<T: Model> Model for LinkedList<T> {
    fn arb(sh: &mut Shape) -> Self {
        let n = sh.choice(sh.maxv + 1);
        let mut v = LinkedList::new();
        let mut i = 0;
        while i < n {
            v.push_back(T::arb(sh));
            i += 1;
        }
        v
    }
    fn enc(&self, b: &mut Buf) {
        // a linked list of bytes is an ordinary sequence (only Vec/slice/array have the byte form)
        b.vari(self.len() as i32);
        for x in self.iter() {
            x.enc(b);
        }
    }
    fn dec(r: &mut Rd) -> Option<Self> {
        let n = r.vari()?;
        let mut out = LinkedList::new();
        if n == -1 {
            let mut i = 0;
            while i <= DEC_MAX {
                match r.u8()? {
                    0 => return Some(out),
                    1 => {
                        if i == DEC_MAX {
                            return None;
                        }
                        out.push_back(T::dec(r)?)
                    }
                    _ => return None,
                }
                i += 1;
            }
            None
        } else if n < -1 || n as usize > DEC_MAX {
            None
        } else {
            let mut i = 0;
            while i < n {
                out.push_back(T::dec(r)?);
                i += 1;
            }
            Some(out)
        }
    }
    fn same(&self, o: &Self) -> bool {
        self.len() == o.len() && same_iter(self.iter(), o.iter())
    }
}

impl<T: Model, const L: usize> Model for [T; L] {
    fn arb(sh: &mut Shape) -> Self {
        std::array::from_fn(|_| T::arb(sh))
    }
    fn enc(&self, b: &mut Buf) {
        enc_seq(self.iter(), L, b);
    }
    fn dec(r: &mut Rd) -> Option<Self> {
        // a fixed-size array is produced only from exactly L elements (§4.5)
        let v: Vec<T> = dec_seq(r, L)?;
        if v.len() != L {
            return None;
        }
        let mut it = v.into_iter();
        let mut ok = true;
        let a: [Option<T>; L] = std::array::from_fn(|_| {
            let x = it.next();
            if x.is_none() {
                ok = false;
            }
            x
        });
        if !ok {
            return None;
        }
        let mut it2 = a.into_iter();
        Some(std::array::from_fn(|_| match it2.next() {
            Some(Some(x)) => x,
            _ => unreachable!(),
        }))
    }
    fn same(&self, o: &Self) -> bool {
        same_iter(self.iter(), o.iter())
    }
}

impl Model for bytes::Bytes {
    fn arb(sh: &mut Shape) -> Self {
        let v: Vec<u8> = Vec::<u8>::arb(sh);
        bytes::Bytes::from(v)
    }
    fn enc(&self, b: &mut Buf) {
        b.varu(self.len() as u32);
        b.bytes(&self[..]);
    }
    fn dec(r: &mut Rd) -> Option<Self> {
        let v: Vec<u8> = dec_seq(r, DEC_MAX)?;
        Some(bytes::Bytes::from(v))
    }
    fn same(&self, o: &Self) -> bool {
        self[..] == o[..]
    }
}

macro_rules! ptr_model {
    ($p:ident) => {
        impl<T: Model> Model for $p<T> {
            fn arb(sh: &mut Shape) -> Self {
                $p::new(T::arb(sh))
            }
            fn enc(&self, b: &mut Buf) {
                (**self).enc(b)
            }
            fn dec(r: &mut Rd) -> Option<Self> {
                Some($p::new(T::dec(r)?))
            }
            fn same(&self, o: &Self) -> bool {
                (**self).same(&**o)
            }
        }
    };
}
ptr_model!(Box);
ptr_model!(Rc);
ptr_model!(Arc);

/// Version-0 record prefix of tuples and of declarations without evolution steps.
pub fn dec_v0(r: &mut Rd) -> Option<()> {
    match r.u8()? {
        0 => Some(()),
        _ => None, // records with a header are decoded by crate::evolved, not here
    }
}

macro_rules! tuple_model {
    ($($t:ident $i:tt),+) => {
        impl<$($t: Model),+> Model for ($($t,)+) {
            fn arb(sh: &mut Shape) -> Self {
                ($($t::arb(sh),)+)
            }
            fn enc(&self, b: &mut Buf) {
                b.u8(0);
                $(self.$i.enc(b);)+
            }
            fn dec(r: &mut Rd) -> Option<Self> {
                dec_v0(r)?;
                Some(($($t::dec(r)?,)+))
            }
            fn same(&self, o: &Self) -> bool {
                $(self.$i.same(&o.$i))&&+
            }
        }
    };
}
tuple_model!(A 0);
tuple_model!(A 0, B 1);
tuple_model!(A 0, B 1, C 2);
tuple_model!(A 0, B 1, C 2, D 3);
tuple_model!(A 0, B 1, C 2, D 3, E 4);
tuple_model!(A 0, B 1, C 2, D 3, E 4, F 5);
tuple_model!(A 0, B 1, C 2, D 3, E 4, F 5, G 6);
tuple_model!(A 0, B 1, C 2, D 3, E 4, F 5, G 6, H 7);

impl Model for uuid::Uuid {
    fn arb(_sh: &mut Shape) -> Self {
        uuid::Uuid::from_bytes(sym::bytes::<16>())
    }
    fn enc(&self, b: &mut Buf) {
        b.bytes(self.as_bytes());
    }
    fn dec(r: &mut Rd) -> Option<Self> {
        let s = r.bytes(16)?;
        let mut a = [0u8; 16];
        let mut i = 0;
        while i < 16 {
            a[i] = s[i];
            i += 1;
        }
        Some(uuid::Uuid::from_bytes(a))
    }
    fn same(&self, o: &Self) -> bool {
        self.as_bytes() == o.as_bytes()
    }
}
