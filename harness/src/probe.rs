use desert_core::*;
use desert_macro::BinaryCodec;
mod desert { pub use desert_core::*; }

fn stub_format(_: std::fmt::Arguments<'_>) -> String { String::new() }

#[derive(BinaryCodec)]
#[evolution(FieldAdded("c", 7u8))]
pub struct V1 { a: u8, b: u16, c: u8 }

#[kani::proof]
#[kani::unwind(8)]
#[kani::stub(std::fmt::format, stub_format)]
#[kani::stub(std::sync::Once::call_once, once_stub)]
fn probe_evolved_writer() {
    let v = V1 { a: kani::any(), b: kani::any(), c: kani::any() };
    let r = desert_core::serialize(&v, Vec::new());
    match r {
        Ok(out) => {
            assert!(out.len() == 7);
            assert!(out[0] == 1);
            assert!(out[1] == 6);
            assert!(out[2] == 2);
            assert!(out[3] == v.a);
            assert!(out[6] == v.c);
            std::mem::forget(out);
        }
        Err(e) => { std::mem::forget(e); assert!(false); }
    }
}

#[kani::proof]
#[kani::unwind(8)]
#[kani::stub(std::fmt::format, stub_format)]
fn probe_strings() {
    let a = "abc".to_string();
    let b = a.clone();
    let x: u8 = kani::any();
    let mut arr = [0u8; 4];
    if a == b { arr[1] = x; } else { arr[(x & 3) as usize] = 1; }
    assert!(arr[1] == x);
}

#[kani::proof]
#[kani::unwind(8)]
fn probe_iter_vec_push() {
    let mut v: Vec<u16> = Vec::new();
    v.push(1); v.push(2);
    let mut s = 0u16;
    for x in v.iter() { s += *x; }
    assert!(s == 3);
}

#[kani::proof]
#[kani::unwind(8)]
fn probe_iter_vec_strings() {
    let mut v: Vec<String> = Vec::new();
    v.push("a".to_string()); v.push("bc".to_string());
    let mut s = 0usize;
    for x in v.iter() { s += x.len(); }
    assert!(s == 3);
}

#[kani::proof]
#[kani::unwind(8)]
fn probe_meta_direct() {
    let m = desert_core::adt::AdtMetadata::new(vec![Evolution::InitialVersion, Evolution::FieldAdded { name: "c".to_string() }]);
    std::mem::forget(m);
}

lazy_static::lazy_static! {
    static ref LV: Vec<u16> = { let mut v = Vec::new(); v.push(1); v.push(2); v };
}

pub fn once_stub<F: FnOnce()>(_this: &std::sync::Once, f: F) { f() }

#[kani::proof]
#[kani::unwind(8)]
#[kani::stub(std::sync::Once::call_once, once_stub)]
fn probe_lazy_vec() {
    let mut s = 0u16;
    for x in LV.iter() { s += *x; }
    assert!(s == 3);
}

fn lv2() -> &'static Vec<u16> { Box::leak(Box::new({ let mut v = Vec::new(); v.push(1); v.push(2); v })) }

#[kani::proof]
#[kani::unwind(8)]
fn probe_leak_vec() {
    let mut s = 0u16;
    for x in lv2().iter() { s += *x; }
    assert!(s == 3);
}

static mut SLOT: Option<Vec<u16>> = None;
#[allow(static_mut_refs)]
fn lv3() -> &'static Vec<u16> { unsafe { if SLOT.is_none() { SLOT = Some({ let mut v = Vec::new(); v.push(1); v.push(2); v }); } SLOT.as_ref().unwrap() } }

#[kani::proof]
#[kani::unwind(8)]
fn probe_static_opt_vec() {
    let mut s = 0u16;
    for x in lv3().iter() { s += *x; }
    assert!(s == 3);
}

#[kani::proof]
#[kani::unwind(8)]
fn probe_meta_push() {
    let mut steps: Vec<Evolution> = Vec::new();
    steps.push(Evolution::InitialVersion);
    steps.push(Evolution::FieldAdded { name: "c".to_string() });
    let m = desert_core::adt::AdtMetadata::new(steps);
    std::mem::forget(m);
}

lazy_static::lazy_static! {
    static ref LM: desert_core::adt::AdtMetadata = {
        let mut steps: Vec<Evolution> = Vec::new();
        steps.push(Evolution::InitialVersion);
        steps.push(Evolution::FieldAdded { name: "c".to_string() });
        desert_core::adt::AdtMetadata::new(steps)
    };
}

#[kani::proof]
#[kani::unwind(8)]
fn probe_meta_lazy() {
    let m: &desert_core::adt::AdtMetadata = &LM;
    let _ = m;
}

#[kani::proof]
#[kani::unwind(8)]
fn probe_p1_vec_opt_u16() {
    let mut v: Vec<Option<u16>> = Vec::new();
    v.push(Some(1)); v.push(None);
    let mut s = 0u16;
    for x in v.iter() { if let Some(y) = x { s += *y; } }
    assert!(s == 1);
}

#[kani::proof]
#[kani::unwind(8)]
fn probe_p2_vec_opt_vec() {
    let mut v: Vec<Option<Vec<u8>>> = Vec::new();
    v.push(Some(Vec::new())); v.push(None);
    let mut s = 0u16;
    for x in v.iter() { if x.is_some() { s += 1; } }
    assert!(s == 1);
}

#[kani::proof]
#[kani::unwind(8)]
fn probe_p3_vec_evolution() {
    let mut v: Vec<Evolution> = Vec::new();
    v.push(Evolution::InitialVersion); v.push(Evolution::FieldAdded { name: "c".to_string() });
    let mut s = 0u16;
    for x in v.iter() { if let Evolution::FieldAdded { .. } = x { s += 1; } }
    assert!(s == 1);
}

#[kani::proof]
#[kani::unwind(8)]
fn probe_p4_vec_evolution_lit() {
    let v: Vec<Evolution> = vec![Evolution::InitialVersion, Evolution::FieldAdded { name: "c".to_string() }];
    let mut s = 0u16;
    for x in v.iter() { if let Evolution::FieldAdded { .. } = x { s += 1; } }
    assert!(s == 1);
}

#[inline(never)]
fn spin(n: usize) -> usize { let mut c = 0; let mut i = 0; while i < n { c += 1; i += 1; } c }

#[kani::proof]
#[kani::unwind(8)]
fn probe_h1_vec_push_content() {
    let mut v: Vec<usize> = Vec::new(); v.push(2); v.push(1);
    assert!(spin(v[0]) == 2);
}
#[kani::proof]
#[kani::unwind(8)]
fn probe_h2_box_content() {
    let b = Box::new(2usize);
    assert!(spin(*b) == 2);
}
#[kani::proof]
#[kani::unwind(8)]
fn probe_h3_string_content() {
    let s = "abc".to_string();
    assert!(spin((s.as_bytes()[1] - 96) as usize) == 2);
}
#[kani::proof]
#[kani::unwind(8)]
fn probe_h4_vec_struct_content() {
    let mut v: Vec<(u8, usize)> = Vec::new(); v.push((1, 2)); v.push((3, 1));
    assert!(spin(v[0].1) == 2);
}
#[kani::proof]
#[kani::unwind(8)]
fn probe_h5_vec_enum_content() {
    let mut v: Vec<Evolution> = Vec::new(); v.push(Evolution::InitialVersion); v.push(Evolution::FieldAdded { name: "c".to_string() });
    let n = match &v[1] { Evolution::FieldAdded { .. } => 2, _ => 5 };
    assert!(spin(n) == 2);
}
#[kani::proof]
#[kani::unwind(8)]
fn probe_h6_vec_enum_lit_content() {
    let v: Vec<Evolution> = vec![Evolution::InitialVersion, Evolution::FieldAdded { name: "c".to_string() }];
    let n = match &v[1] { Evolution::FieldAdded { .. } => 2, _ => 5 };
    assert!(spin(n) == 2);
}
#[kani::proof]
#[kani::unwind(8)]
fn probe_h7_vec_optvec_content() {
    let mut v: Vec<Option<Vec<u8>>> = Vec::new(); v.push(Some(Vec::new())); v.push(None);
    let n = match &v[0] { Some(_) => 2, _ => 5 };
    assert!(spin(n) == 2);
}

#[derive(BinaryCodec)]
pub struct V0 { a: u8, b: u16 }

#[derive(BinaryCodec)]
pub enum E3 { A, B(u8), C { x: u16 } }

macro_rules! pr { ($name:ident, $body:block) => { pr!($name, 8, $body); };
  ($name:ident, $u:expr, $body:block) => {
    #[kani::proof]
    #[kani::unwind($u)]
    #[kani::stub(std::fmt::format, stub_format)]
    fn $name() $body
} }

pr!(probe_r_v1_on_v1, 4, {
    let mut b: [u8; 7] = kani::any();
    b[0] = 1; b[1] = 6; b[2] = 2;
    match desert_core::deserialize::<V1>(&b) {
        Ok(v) => { assert!(v.a == b[3] && v.b == u16::from_be_bytes([b[4], b[5]]) && v.c == b[6]); }
        Err(e) => { std::mem::forget(e); assert!(false); }
    }
});
pr!(probe_r_v1_on_v0, {
    let mut b: [u8; 4] = kani::any();
    b[0] = 0;
    match desert_core::deserialize::<V1>(&b) {
        Ok(v) => { assert!(v.a == b[1] && v.b == u16::from_be_bytes([b[2], b[3]]) && v.c == 7); }
        Err(e) => { std::mem::forget(e); assert!(false); }
    }
});
pr!(probe_r_v0_on_v1, 4, {
    let mut b: [u8; 7] = kani::any();
    b[0] = 1; b[1] = 6; b[2] = 2;
    match desert_core::deserialize::<V0>(&b) {
        Ok(v) => { assert!(v.a == b[3] && v.b == u16::from_be_bytes([b[4], b[5]])); }
        Err(e) => { std::mem::forget(e); assert!(false); }
    }
});
pr!(probe_r_tuple_on_v1, 4, {
    let mut b: [u8; 6] = kani::any();
    b[0] = 1; b[1] = 4; b[2] = 2;
    match desert_core::deserialize::<(u8, u8)>(&b) {
        Ok(v) => { assert!(v.0 == b[3] && v.1 == b[4]); }
        Err(e) => { std::mem::forget(e); assert!(false); }
    }
});
pr!(probe_enum_symbolic_idx, {
    let mut b: [u8; 5] = kani::any();
    b[0] = 0; b[2] = 0;
    let i: u8 = kani::any();
    b[1] = if i == 0 { 0 } else if i == 1 { 1 } else { 2 };
    match desert_core::deserialize::<E3>(&b) {
        Ok(E3::A) => assert!(b[1] == 0),
        Ok(E3::B(x)) => assert!(b[1] == 1 && x == b[3]),
        Ok(E3::C { x }) => assert!(b[1] == 2 && x == u16::from_be_bytes([b[3], b[4]])),
        Err(e) => { std::mem::forget(e); assert!(false); }
    }
});
pr!(probe_dedup_concrete, 4, {
    let mut ctx = SerializationContext::new(Vec::new());
    let r1 = DeduplicatedString("a".to_string()).serialize(&mut ctx);
    let r2 = DeduplicatedString("bc".to_string()).serialize(&mut ctx);
    let r3 = DeduplicatedString("a".to_string()).serialize(&mut ctx);
    assert!(r1.is_ok() && r2.is_ok() && r3.is_ok());
    let out = ctx.into_output();
    assert!(out.len() == 6);
    assert!(out[0] == 2 && out[1] == b'a' && out[2] == 4 && out[3] == b'b' && out[4] == b'c' && out[5] == 1);
    std::mem::forget(out);
});
pr!(probe_dedup_symbolic, 4, {
    let mut ctx = SerializationContext::new(Vec::new());
    let c1: bool = kani::any(); let c2: bool = kani::any(); let c3: bool = kani::any();
    let s = |c: bool| if c { "a".to_string() } else { "bc".to_string() };
    let r1 = DeduplicatedString(s(c1)).serialize(&mut ctx);
    let r2 = DeduplicatedString(s(c2)).serialize(&mut ctx);
    let r3 = DeduplicatedString(s(c3)).serialize(&mut ctx);
    assert!(r1.is_ok() && r2.is_ok() && r3.is_ok());
    let out = ctx.into_output();
    if c1 && !c2 && c3 { assert!(out.len() == 6 && out[5] == 1); }
    if c1 && c2 && c3 { assert!(out.len() == 4 && out[2] == 1 && out[3] == 1); }
    std::mem::forget(out);
});

#[repr(u8)]
enum S { A { size: i32 }, B { position: desert_core::adt::FieldPosition }, C { name: String }, U }
fn deser_s(ctx: &mut DeserializationContext<'_>) -> desert_core::Result<S> {
    let c = ctx.read_var_i32()?;
    if c == 0 { return Ok(S::U); }
    if c == -1 { let position = desert_core::adt::FieldPosition::deserialize(ctx)?; return Ok(S::B { position }); }
    if c == -2 { let name = String::deserialize(ctx)?; return Ok(S::C { name }); }
    Ok(S::A { size: c })
}
pr!(probe_s1_readvar_fold, {
    let mut b: [u8; 7] = kani::any();
    b[0] = 1; b[1] = 6; b[2] = 2;
    let mut ctx = DeserializationContext::new(&b);
    let v = ctx.read_u8().unwrap_or(9);
    assert!(spin(v as usize + 1) == 2);
    let c = match ctx.read_var_i32() { Ok(c) => c, Err(e) => { std::mem::forget(e); 9 } };
    assert!(spin(c as usize) == 3);
});
pr!(probe_s2_enum_result_fold, {
    let mut b: [u8; 7] = kani::any();
    b[0] = 1; b[1] = 6; b[2] = 2;
    let mut ctx = DeserializationContext::new(&b);
    let _ = ctx.read_u8();
    let s = deser_s(&mut ctx);
    let n = match s { Ok(S::A { size }) => size as usize, Ok(_) => 5, Err(e) => { std::mem::forget(e); 6 } };
    assert!(spin(n) == 3);
});
pr!(probe_s3_enum_vec_fold, {
    let mut b: [u8; 7] = kani::any();
    b[0] = 1; b[1] = 6; b[2] = 2;
    let mut ctx = DeserializationContext::new(&b);
    let _ = ctx.read_u8();
    let mut v = Vec::with_capacity(2);
    for _ in 0..=1u8 {
        match deser_s(&mut ctx) { Ok(s) => v.push(s), Err(e) => { std::mem::forget(e); } }
    }
    let mut n = 0;
    for (idx, s) in v.iter().enumerate() {
        match s { S::A { size } => { n += *size as usize; } S::B { .. } => { n += 5 + idx; } S::C { name } => { n += name.len() + 6; } _ => { n += 7; } }
    }
    assert!(spin(n) == 4);
    std::mem::forget(v);
});

pr!(probe_enum_unknown_idx1, 4, {
    let mut b: [u8; 5] = kani::any();
    b[0] = 0; b[2] = 0;
    b[1] = b[1] & 0x7f;
    kani::assume(b[1] >= 3);
    match desert_core::deserialize::<E3>(&b) {
        Ok(v) => { std::mem::forget(v); assert!(false); }
        Err(e) => { std::mem::forget(e); }
    }
});

#[inline(never)]
fn mk_s(c: i32) -> desert_core::Result<S> {
    if c == 0 { return Ok(S::U); }
    if c == -2 { return Ok(S::C { name: "x".to_string() }); }
    Ok(S::A { size: c })
}
#[inline(never)]
fn mk_s_plain(c: i32) -> S {
    if c == 0 { return S::U; }
    if c == -2 { return S::C { name: "x".to_string() }; }
    S::A { size: c }
}
pr!(probe_t1_plain_enum, {
    let s = mk_s_plain(3);
    let n = match s { S::A { size } => size as usize, _ => 5 };
    assert!(spin(n) == 3);
});
pr!(probe_t2_result_enum, {
    let s = mk_s(3);
    let n = match s { Ok(S::A { size }) => size as usize, Ok(_) => 5, Err(e) => { std::mem::forget(e); 6 } };
    assert!(spin(n) == 3);
});
pr!(probe_t3_result_enum_q, {
    fn inner() -> desert_core::Result<usize> { let s = mk_s(3)?; Ok(match s { S::A { size } => size as usize, _ => 5 }) }
    let n = match inner() { Ok(n) => n, Err(e) => { std::mem::forget(e); 6 } };
    assert!(spin(n) == 3);
});
pr!(probe_t4_ctx_then_plain, {
    let mut b: [u8; 7] = kani::any();
    b[0] = 1; b[1] = 6; b[2] = 2;
    let mut ctx = DeserializationContext::new(&b);
    let _ = ctx.read_u8();
    let c = match ctx.read_var_i32() { Ok(c) => c, Err(e) => { std::mem::forget(e); 9 } };
    let s = mk_s_plain(c);
    let n = match s { S::A { size } => size as usize, _ => 5 };
    assert!(spin(n) == 3);
});

enum S0 { A { size: i32 }, B { position: desert_core::adt::FieldPosition }, C { name: String }, U }
fn deser_s0(ctx: &mut DeserializationContext<'_>) -> desert_core::Result<S0> {
    let c = ctx.read_var_i32()?;
    if c == 0 { return Ok(S0::U); }
    if c == -1 { let position = desert_core::adt::FieldPosition::deserialize(ctx)?; return Ok(S0::B { position }); }
    if c == -2 { let name = String::deserialize(ctx)?; return Ok(S0::C { name }); }
    Ok(S0::A { size: c })
}
fn like_new(ctx: &mut DeserializationContext<'_>, stored_version: u8) -> desert_core::Result<usize> {
    let mut v = Vec::with_capacity(stored_version as usize + 1);
    for _ in 0..=stored_version {
        let s = deser_s0(ctx)?;
        v.push(s);
    }
    let mut n = 0;
    for (idx, s) in v.iter().enumerate() {
        match s { S0::A { size } => { n += *size as usize; } S0::B { .. } => { n += 5 + idx; } S0::C { name } => { n += name.len() + 6; } _ => { n += 7; } }
    }
    std::mem::forget(v);
    Ok(n)
}
fn like_new_repr(ctx: &mut DeserializationContext<'_>, stored_version: u8) -> desert_core::Result<usize> {
    let mut v = Vec::with_capacity(stored_version as usize + 1);
    for _ in 0..=stored_version {
        let s = deser_s(ctx)?;
        v.push(s);
    }
    let mut n = 0;
    for (idx, s) in v.iter().enumerate() {
        match s { S::A { size } => { n += *size as usize; } S::B { .. } => { n += 5 + idx; } S::C { name } => { n += name.len() + 6; } _ => { n += 7; } }
    }
    std::mem::forget(v);
    Ok(n)
}
pr!(probe_u1_like_new, {
    let mut b: [u8; 7] = kani::any();
    b[0] = 1; b[1] = 6; b[2] = 2;
    let mut ctx = DeserializationContext::new(&b);
    let sv = ctx.read_u8().unwrap_or(0);
    let n = match like_new(&mut ctx, sv) { Ok(n) => n, Err(e) => { std::mem::forget(e); 7 } };
    assert!(spin(n) == 4);
});
pr!(probe_u2_like_new_repr, {
    let mut b: [u8; 7] = kani::any();
    b[0] = 1; b[1] = 6; b[2] = 2;
    let mut ctx = DeserializationContext::new(&b);
    let sv = ctx.read_u8().unwrap_or(0);
    let n = match like_new_repr(&mut ctx, sv) { Ok(n) => n, Err(e) => { std::mem::forget(e); 7 } };
    assert!(spin(n) == 4);
});

fn count(v: &Vec<S0>) -> usize {
    let mut n = 0;
    for (idx, s) in v.iter().enumerate() {
        match s { S0::A { size } => { n += *size as usize; } S0::B { .. } => { n += 5 + idx; } S0::C { name } => { n += name.len() + 6; } _ => { n += 7; } }
    }
    n
}
fn mk_s0(c: i32) -> desert_core::Result<S0> {
    if c == 0 { return Ok(S0::U); }
    if c == -2 { return Ok(S0::C { name: "x".to_string() }); }
    Ok(S0::A { size: c })
}
pr!(probe_w3_direct, {
    let mut v = Vec::with_capacity(2);
    v.push(S0::A { size: 3 }); v.push(S0::A { size: 1 });
    assert!(spin(count(&v)) == 4);
    std::mem::forget(v);
});
pr!(probe_w5_result_q, {
    fn inner() -> desert_core::Result<usize> {
        let mut v = Vec::with_capacity(2);
        v.push(mk_s0(3)?); v.push(mk_s0(1)?);
        let n = count(&v); std::mem::forget(v); Ok(n)
    }
    let n = match inner() { Ok(n) => n, Err(e) => { std::mem::forget(e); 7 } };
    assert!(spin(n) == 4);
});
pr!(probe_w6_deser_single, {
    fn inner(ctx: &mut DeserializationContext<'_>) -> desert_core::Result<usize> {
        let s = deser_s0(ctx)?;
        let n = match &s { S0::A { size } => *size as usize, _ => 7 };
        std::mem::forget(s);
        Ok(n)
    }
    let mut b: [u8; 7] = kani::any();
    b[0] = 1; b[1] = 6; b[2] = 2;
    let mut ctx = DeserializationContext::new(&b);
    let _ = ctx.read_u8();
    let n = match inner(&mut ctx) { Ok(n) => n, Err(e) => { std::mem::forget(e); 7 } };
    assert!(spin(n) == 3);
});
pr!(probe_w7_deser_two_novec, {
    fn inner(ctx: &mut DeserializationContext<'_>) -> desert_core::Result<usize> {
        let s = deser_s0(ctx)?;
        let t = deser_s0(ctx)?;
        let n = match &s { S0::A { size } => *size as usize, _ => 7 } + match &t { S0::A { size } => *size as usize, _ => 7 };
        std::mem::forget(s); std::mem::forget(t);
        Ok(n)
    }
    let mut b: [u8; 7] = kani::any();
    b[0] = 1; b[1] = 6; b[2] = 2;
    let mut ctx = DeserializationContext::new(&b);
    let _ = ctx.read_u8();
    let n = match inner(&mut ctx) { Ok(n) => n, Err(e) => { std::mem::forget(e); 7 } };
    assert!(spin(n) == 4);
});

pr!(probe_x1_index_only, {
    let mut v = Vec::with_capacity(2);
    v.push(S0::A { size: 3 }); v.push(S0::A { size: 1 });
    let n = match &v[0] { S0::A { size } => *size as usize, _ => 7 };
    assert!(spin(n) == 3);
    std::mem::forget(v);
});
pr!(probe_x2_repr_index_only, {
    let mut v = Vec::with_capacity(2);
    v.push(S::A { size: 3 }); v.push(S::A { size: 1 });
    let n = match &v[0] { S::A { size } => *size as usize, _ => 7 };
    assert!(spin(n) == 3);
    std::mem::forget(v);
});
pr!(probe_x3_iter_simple, {
    let mut v = Vec::with_capacity(2);
    v.push(S0::A { size: 3 }); v.push(S0::A { size: 1 });
    let mut n = 0;
    for s in v.iter() { n += match s { S0::A { size } => *size as usize, _ => 7 }; }
    assert!(spin(n) == 4);
    std::mem::forget(v);
});
pr!(probe_x4_stack_array, {
    let v = [S0::A { size: 3 }, S0::A { size: 1 }];
    let mut n = 0;
    for s in v.iter() { n += match s { S0::A { size } => *size as usize, _ => 7 }; }
    assert!(spin(n) == 4);
    std::mem::forget(v);
});
pr!(probe_x5_box_single, {
    let v = Box::new(S0::A { size: 3 });
    let n = match &*v { S0::A { size } => *size as usize, _ => 7 };
    assert!(spin(n) == 3);
    std::mem::forget(v);
});

pr!(probe_y1_repr_box_discr, {
    let v = Box::new(S::A { size: 3 });
    let n = match &*v { S::A { .. } => 2, _ => 7 };
    assert!(spin(n) == 2);
    std::mem::forget(v);
});
pr!(probe_y2_norepr_box_discr, {
    let v = Box::new(S0::A { size: 3 });
    let n = match &*v { S0::A { .. } => 2, _ => 7 };
    assert!(spin(n) == 2);
    std::mem::forget(v);
});
#[repr(C)]
enum SC { A { size: i32 }, B { position: desert_core::adt::FieldPosition }, C { name: String }, U }
pr!(probe_y3_reprc_box_payload, {
    let v = Box::new(SC::A { size: 3 });
    let n = match &*v { SC::A { size } => *size as usize, _ => 7 };
    assert!(spin(n) == 3);
    std::mem::forget(v);
});

pub enum ErrN { A(String), B, C(u16), D { x: String, y: String } }
#[repr(u8)]
pub enum ErrR { A(String), B, C(u16), D { x: String, y: String } }
#[inline(never)] fn fn_n(x: bool) -> std::result::Result<u8, ErrN> { if x { Err(ErrN::B) } else { Ok(1) } }
#[inline(never)] fn fn_r(x: bool) -> std::result::Result<u8, ErrR> { if x { Err(ErrR::B) } else { Ok(1) } }
#[inline(never)] fn fn_real(x: bool) -> desert_core::Result<u8> { if x { Err(desert_core::Error::InputEndedUnexpectedly) } else { Ok(1) } }
pr!(probe_z1_err_norepr, { let n = match fn_n(true) { Ok(_) => 7, Err(e) => { std::mem::forget(e); 2 } }; assert!(spin(n) == 2); });
pr!(probe_z2_err_repr, { let n = match fn_r(true) { Ok(_) => 7, Err(e) => { std::mem::forget(e); 2 } }; assert!(spin(n) == 2); });
pr!(probe_z3_err_real, { let n = match fn_real(true) { Ok(_) => 7, Err(e) => { std::mem::forget(e); 2 } }; assert!(spin(n) == 2); });
pr!(probe_z4_err_real_q, {
    fn inner() -> desert_core::Result<u8> { let v = fn_real(true)?; Ok(v + 1) }
    let n = match inner() { Ok(_) => 7, Err(e) => { std::mem::forget(e); 2 } }; assert!(spin(n) == 2);
});
