//! C13 — enum constructors keep their identity; unknown ones are errors.
//! C14 — transient constructors never reach the wire.
#![allow(unused_imports)]
use crate::catalogue::*;
use crate::checks::for_shapes;
use crate::refmodel::{Buf, Model};
use crate::sym;
use desert_core::Error;

proof! {
    //@ props=C13,C03 tier=thorough bounds=E3-values-read-as-E5(two-appended-constructors);payload-symbolic
    fn c13_extended_reads_old() unwind(4) {
        for_shapes::<E3>(0, 0, |v| {
            let mut r = Buf::new();
            v.enc(&mut r);
            match desert_core::deserialize::<E5>(&r.b[..r.n]) {
                Ok(w) => {
                    let ok = match (v, &w) {
                        (E3::A, E5::A) => true,
                        (E3::B(a), E5::B(b)) => a == b,
                        (E3::C { x: a }, E5::C { x: b }) => a == b,
                        _ => false,
                    };
                    assert!(ok, "old data changed meaning under the extended enum");
                    cover!(true);
                }
                Err(e) => { std::mem::forget(e); assert!(false, "extended enum rejected old data"); }
            }
        });
    }
}

proof! {
    //@ props=C13 tier=quick bounds=ES-values(sorted-constructors)-read-as-ES2(new-constructor-sorting-last)
    fn c13_sorted_extended_reads_old() unwind(4) {
        for_shapes::<ES>(0, 0, |v| {
            let mut r = Buf::new();
            v.enc(&mut r);
            match desert_core::deserialize::<ES2>(&r.b[..r.n]) {
                Ok(w) => {
                    let ok = match (v, &w) {
                        (ES::Alpha, ES2::Alpha) => true,
                        (ES::Mid { v: a }, ES2::Mid { v: b }) => a == b,
                        (ES::Zeta(a), ES2::Zeta(b)) => a == b,
                        _ => false,
                    };
                    assert!(ok, "old data changed meaning under the extended sorted enum");
                }
                Err(e) => { std::mem::forget(e); assert!(false, "extended enum rejected old data"); }
            }
        });
    }
}

proof! {
    //@ props=C13,C05 tier=quick bounds=E5-values-of-the-new-constructors-read-as-E3:must-be-Err
    fn c13_old_rejects_new() unwind(4) {
        let d = E5::D(sym::u8_(), sym::bool_());
        let mut r = Buf::new();
        d.enc(&mut r);
        match desert_core::deserialize::<E3>(&r.b[..r.n]) {
            Ok(w) => { std::mem::forget(w); assert!(false, "a constructor unknown to the reader was decoded"); }
            Err(e) => std::mem::forget(e),
        }
        let mut r = Buf::new();
        E5::E.enc(&mut r);
        match desert_core::deserialize::<E3>(&r.b[..r.n]) {
            Ok(w) => { std::mem::forget(w); assert!(false, "a constructor unknown to the reader was decoded"); }
            Err(e) => std::mem::forget(e),
        }
    }
}

macro_rules! transient_ctor {
    ($name:ident, $t:ident, $tyname:expr) => { transient_ctor!($name, $t, $tyname, T, "T"); };
    ($name:ident, $t:ident, $tyname:expr, $ctor:ident, $ctorname:expr) => {
        proof! {
            fn $name() unwind(6) {
                // decoding the index of the transient constructor is the dedicated error
                let mut r = Buf::new();
                r.u8(0);
                r.varu($t::IDX_T);
                r.u8(0);
                r.be2(sym::u16_());
                match desert_core::deserialize::<$t>(&r.b[..r.n]) {
                    Ok(w) => { std::mem::forget(w); assert!(false, "a transient constructor was decoded"); }
                    Err(e) => {
                        let ok = match &e {
                            Error::DeserializingTransientConstructor { constructor_name, type_name } =>
                                constructor_name.as_bytes() == $ctorname.as_bytes() && type_name.as_bytes() == $tyname.as_bytes(),
                            _ => false,
                        };
                        assert!(ok, "wrong error for a transient constructor index");
                        std::mem::forget(e);
                    }
                }
                // encoding a value of the transient constructor is the dedicated error, no bytes
                let v = $t::$ctor(sym::u16_());
                match desert_core::serialize_to_byte_vec(&v) {
                    Ok(out) => { std::mem::forget(out); assert!(false, "a transient constructor was encoded"); }
                    Err(e) => {
                        let ok = match &e {
                            Error::SerializingTransientConstructor { constructor_name, type_name } =>
                                constructor_name.as_bytes() == $ctorname.as_bytes() && type_name.as_bytes() == $tyname.as_bytes(),
                            _ => false,
                        };
                        assert!(ok, "wrong error for encoding a transient constructor");
                        cover!(true);
                        std::mem::forget(e);
                    }
                }
            }
        }
    };
}
//@ props=C13,C14,C17 tier=quick bounds=transient-constructor-first
transient_ctor!(c14_transient_ctor_first, ETf, "ETf");
//@ props=C13,C14,C17 tier=quick bounds=transient-constructor-middle
transient_ctor!(c14_transient_ctor_mid, ETm, "ETm");
//@ props=C13,C14,C17 tier=thorough bounds=transient-constructor-last
transient_ctor!(c14_transient_ctor_last, ETl, "ETl");
//@ props=C13,C14 tier=quick bounds=sorted-constructors:transient-constructor-declared-first,sorted-last
transient_ctor!(c14_transient_ctor_sorted, EST, "EST", Zeta, "Zeta");

proof! {
    //@ props=C14 tier=quick bounds=TrMid,TrFirst:two-values-differing-only-in-the-transient-field
    fn c14_transient_field_no_bytes() unwind(4) {
        let a = sym::u8_();
        let b = sym::u8_();
        let v1 = TrMid { a, t: sym::u8_(), b };
        let v2 = TrMid { a, t: sym::u8_(), b };
        match (desert_core::serialize_to_byte_vec(&v1), desert_core::serialize_to_byte_vec(&v2)) {
            (Ok(o1), Ok(o2)) => {
                assert!(o1.len() == o2.len() && o1.len() == 3);
                assert!(o1[0] == o2[0] && o1[1] == o2[1] && o1[2] == o2[2], "a transient field influenced the bytes");
                cover!(v1.t != v2.t);
                std::mem::forget(o1);
                std::mem::forget(o2);
            }
            (x, y) => { std::mem::forget(x); std::mem::forget(y); assert!(false); }
        }
    }
}


proof! {
    //@ props=C14,C03 tier=quick bounds=V7(FieldAdded(t,5)+FieldMadeTransient(t),#[transient(3)]):decoding-version-0-data-sets-t-to-the-declared-transient-default cap=900
    fn c14_transient_default_beats_history() unwind(6) {
        let mut data: [u8; 2] = sym::bytes();
        data[0] = 0;
        match desert_core::deserialize::<V7>(&data) {
            Ok(v) => {
                assert!(v.a == data[1]);
                assert!(v.t == 3, "a transient field must decode to its declared default, whatever earlier steps touched it");
                cover!(true);
            }
            Err(e) => { std::mem::forget(e); assert!(false); }
        }
    }
}

proof! {
    //@ props=C14,C17,C04 tier=quick bounds=V6(FieldMadeOptional(t)+FieldMadeTransient(t),#[transient(None)]):every-value-encodes(Ok),bytes=reference(version-2,chunk-size,removed+name,removed+back-reference,a);probe-sink,context-forgotten cap=900
    fn c14_optional_then_transient_encodable() unwind(6) {
        use crate::catalogue::V6;
        use crate::checks::{assert_probe_eq, Probe};
        use desert_core::{BinarySerializer, SerializationContext};
        let v = V6 { a: sym::u8_(), t: if sym::bool_() { Some(sym::u8_()) } else { None } };
        let mut store = [0u8; crate::refmodel::CAP];
        let mut n = 0usize;
        let mut ctx = SerializationContext::new(Probe { buf: &mut store, n: &mut n });
        match v.serialize(&mut ctx) {
            Ok(()) => {}
            Err(e) => { std::mem::forget(e); assert!(false, "a field made optional and later made transient must remain encodable"); }
        }
        // forgotten, not dropped: dropping the string table is what `e_v6::enc` runs out of memory on
        std::mem::forget(ctx);
        let mut r = Buf::new();
        v.enc(&mut r);
        assert_probe_eq(&store, n, &r);
        cover!(v.t.is_some());
    }
}

proof! {
    //@ props=C04,C03 tier=quick bounds=V3(FieldRemoved("b")):after-one-record-the-removed-field-name-is-registered-in-the-stream's-string-table-under-id-1 cap=900
    fn c04_removed_name_is_deduplicated() unwind(6) {
        use desert_core::serializer::StoreStringResult;
        use desert_core::{BinarySerializer, SerializationContext};
        let v = V3 { a: sym::u8_(), c: sym::u8_() };
        let mut ctx = SerializationContext::new(Vec::new());
        match v.serialize(&mut ctx) {
            Ok(()) => {}
            Err(e) => { std::mem::forget(e); assert!(false); }
        }
        // the header wrote the name as a *deduplicated* string: a later occurrence in the same
        // stream is a back-reference to id 1
        match ctx.state_mut().store_string("b".to_string()) {
            StoreStringResult::StringAlreadyStored { id } => assert!(id.0 == 1, "removed field name registered under a wrong id"),
            StoreStringResult::StringIsNew { new_id, value } => {
                let _ = new_id;
                std::mem::forget(value);
                assert!(false, "the removed field name in the header was not written as a deduplicated string");
            }
        }
        cover!(true);
        std::mem::forget(ctx);
    }
}
