//! C01 (and, through the shared kinds, C04 C07 C08 C15 C17): built-in codecs.
//! One `suite!` line per instantiation of the catalogue (DESIGN.md §6.C01).
#![allow(unused_imports)]
use std::collections::LinkedList;
use std::rc::Rc;
use std::sync::Arc;
use std::time::Duration;

// ---- scalars: every bit symbolic, no bound
suite!(t_u8, 0, 0, 4, [enc dec delim trunc sinks], u8); //@ group=b tier=quick
suite!(t_i8, 0, 0, 4, [enc dec delim trunc], i8); //@ group=b tier=thorough
suite!(t_i8_s, 0, 0, 4, [sinks], i8); //@ group=b tier=thorough
suite!(t_u16, 0, 0, 4, [enc dec delim trunc], u16); //@ group=b tier=thorough
suite!(t_u16_s, 0, 0, 4, [sinks], u16); //@ group=b tier=thorough
suite!(t_i16, 0, 0, 4, [enc dec delim trunc], i16); //@ group=b tier=thorough
suite!(t_i16_s, 0, 0, 4, [sinks], i16); //@ group=b tier=thorough
suite!(t_u32, 0, 0, 4, [enc dec delim trunc], u32); //@ group=b tier=thorough
suite!(t_u32_s, 0, 0, 4, [sinks], u32); //@ group=b tier=thorough
suite!(t_i32, 0, 0, 4, [enc dec delim trunc sinks], i32); //@ group=b tier=quick
suite!(t_u64, 0, 0, 4, [enc dec delim trunc], u64); //@ group=b tier=thorough
suite!(t_u64_s, 0, 0, 4, [sinks], u64); //@ group=b tier=thorough
suite!(t_i64, 0, 0, 4, [enc dec delim trunc], i64); //@ group=b tier=thorough
suite!(t_i64_s, 0, 0, 4, [sinks], i64); //@ group=b tier=thorough
suite!(t_u128, 0, 0, 4, [enc dec delim trunc], u128); //@ group=b tier=thorough
suite!(t_u128_s, 0, 0, 4, [sinks], u128); //@ group=b tier=thorough
suite!(t_i128, 0, 0, 4, [enc dec delim trunc], i128); //@ group=b tier=thorough
suite!(t_i128_s, 0, 0, 4, [sinks], i128); //@ group=b tier=thorough
suite!(t_f32, 0, 0, 4, [enc dec delim trunc], f32); //@ group=b tier=thorough
suite!(t_f32_s, 0, 0, 4, [sinks], f32); //@ group=b tier=thorough
suite!(t_f64, 0, 0, 4, [enc dec delim trunc], f64); //@ group=b tier=quick
suite!(t_f64_s, 0, 0, 4, [sinks], f64); //@ group=b tier=thorough
suite!(t_bool, 0, 0, 4, [enc dec delim trunc], bool); //@ group=b tier=quick
suite!(t_bool_s, 0, 0, 4, [sinks], bool); //@ group=b tier=thorough
suite!(t_unit, 0, 0, 4, [enc dec delim], ()); //@ group=b tier=thorough
suite!(t_unit_s, 0, 0, 4, [sinks], ()); //@ group=b tier=thorough
suite!(t_char, 0, 0, 4, [enc dec delim trunc], char); //@ group=b tier=quick
suite!(t_char_s, 0, 0, 4, [sinks], char); //@ group=b tier=thorough
suite!(t_duration, 0, 0, 4, [enc dec delim trunc], Duration); //@ group=b tier=quick
suite!(t_duration_s, 0, 0, 4, [sinks], Duration); //@ group=b tier=thorough

// ---- strings and byte containers
suite!(t_string1, 0, 1, 8, [enc dec sinks], String); //@ group=b tier=quick
suite!(t_string1_thorough, 0, 1, 8, [delim], String); //@ group=b tier=thorough
suite!(t_string1_off, 0, 1, 8, [trunc], String); //@ group=b tier=off
suite!(t_string2, 0, 2, 10, [enc], String); //@ group=b tier=thorough
suite!(t_string2_off, 0, 2, 10, [trunc dec delim], String); //@ group=b tier=off
suite!(t_vecu8, 3, 0, 8, [enc dec delim], Vec<u8>); //@ group=b tier=quick
suite!(t_vecu8_thorough, 3, 0, 8, [trunc], Vec<u8>); //@ group=b tier=thorough
suite!(t_vecu8_s, 3, 0, 8, [sinks], Vec<u8>); //@ group=b tier=thorough
suite!(t_bytes, 3, 0, 8, [enc dec delim trunc], bytes::Bytes); //@ group=b tier=thorough
suite!(t_bytes_s, 3, 0, 8, [sinks], bytes::Bytes); //@ group=b tier=thorough
suite!(t_arru8_0, 0, 0, 6, [enc dec delim trunc], [u8; 0]); //@ group=b tier=thorough
suite!(t_arru8_2, 0, 0, 6, [enc dec delim trunc], [u8; 2]); //@ group=b tier=quick
suite!(t_arru8_2_s, 0, 0, 6, [sinks], [u8; 2]); //@ group=b tier=thorough
suite!(t_arru8_17, 0, 0, 20, [enc dec delim], [u8; 17]); //@ group=b tier=quick
suite!(t_arru8_17_thorough, 0, 0, 20, [trunc], [u8; 17]); //@ group=b tier=thorough

// ---- options, results, smart pointers
suite!(t_opt_u16, 0, 0, 4, [enc dec delim trunc sinks], Option<u16>); //@ group=b tier=quick
suite!(t_opt_opt_u8, 0, 0, 4, [enc dec delim trunc], Option<Option<u8>>); //@ group=b tier=thorough
suite!(t_res_u8_u16, 0, 0, 4, [enc dec delim trunc], Result<u8, u16>); //@ group=b tier=quick
suite!(t_res_u8_u16_s, 0, 0, 4, [sinks], Result<u8, u16>); //@ group=b tier=thorough
suite!(t_box_u16, 0, 0, 4, [enc dec delim trunc], Box<u16>); //@ group=b tier=thorough
suite!(t_rc_pair, 0, 0, 4, [enc dec delim trunc], Rc<(u8, u8)>); //@ group=b tier=thorough
suite!(t_arc_u32, 0, 0, 4, [enc dec delim trunc], Arc<u32>); //@ group=b tier=thorough

// ---- tuples of every arity
suite!(t_tuple1, 0, 0, 4, [enc dec delim trunc], (u16,)); //@ group=b tier=quick
suite!(t_tuple1_s, 0, 0, 4, [sinks], (u16,)); //@ group=b tier=thorough
suite!(t_tuple2, 0, 0, 4, [enc dec delim trunc sinks], (u8, u16)); //@ group=b tier=quick
suite!(t_tuple3, 0, 0, 4, [enc dec delim trunc], (u8, bool, i32)); //@ group=b tier=thorough
suite!(t_tuple4, 0, 0, 4, [enc dec delim trunc], (u8, u8, u8, u8)); //@ group=b tier=thorough
suite!(t_tuple5, 0, 0, 4, [enc dec delim trunc], (u8, i8, u16, i16, u8)); //@ group=b tier=thorough
suite!(t_tuple6, 0, 0, 4, [enc dec delim trunc], (u8, u8, u8, u8, u8, u8)); //@ group=b tier=thorough
suite!(t_tuple7, 0, 0, 4, [enc dec delim trunc], (u8, u8, u8, u8, u8, u8, u16)); //@ group=b tier=thorough
suite!(t_tuple8, 0, 0, 4, [enc dec delim], (u8, u16, u8, u8, bool, u8, u8, i8)); //@ group=b tier=quick
suite!(t_tuple8_off, 0, 0, 4, [trunc], (u8, u16, u8, u8, bool, u8, u8, i8)); //@ group=b tier=off

// ---- sequences (element count <= maxv, every count enumerated)
suite!(t_vec_u16, 2, 0, 6, [enc dec delim], Vec<u16>); //@ group=b tier=quick
suite!(t_vec_u16_thorough_off, 2, 0, 6, [trunc], Vec<u16>); //@ group=b tier=off
suite!(t_vec_u16_thorough, 2, 0, 6, [sinks], Vec<u16>); //@ group=b tier=thorough
suite!(t_vec_u16_3, 3, 0, 6, [enc dec delim], Vec<u16>); //@ group=b tier=thorough
suite!(t_vec_u16_3_off, 3, 0, 6, [trunc], Vec<u16>); //@ group=b tier=off
suite!(t_list_u16, 2, 0, 6, [enc dec delim], LinkedList<u16>); //@ group=b tier=thorough
suite!(t_list_u16_off, 2, 0, 6, [trunc], LinkedList<u16>); //@ group=b tier=off
suite!(t_list_u16_s, 2, 0, 6, [sinks], LinkedList<u16>); //@ group=b tier=thorough
suite!(t_list_u8, 2, 0, 6, [enc dec delim], LinkedList<u8>); //@ group=b tier=thorough
suite!(t_list_u8_off, 2, 0, 6, [trunc], LinkedList<u8>); //@ group=b tier=off
suite!(t_arr_u16_0, 0, 0, 6, [enc], [u16; 0]); //@ group=b tier=thorough
suite!(t_arr_u16_0_off, 0, 0, 6, [dec delim trunc], [u16; 0]); //@ group=b tier=off
suite!(t_arr_u16_1, 0, 0, 6, [enc dec delim], [u16; 1]); //@ group=b tier=thorough
suite!(t_arr_u16_1_off, 0, 0, 6, [trunc], [u16; 1]); //@ group=b tier=off
suite!(t_arr_u16_3, 0, 0, 6, [enc dec delim], [u16; 3]); //@ group=b tier=quick
suite!(t_arr_u16_3_off, 0, 0, 6, [trunc], [u16; 3]); //@ group=b tier=off
suite!(t_arr_u16_3_s, 0, 0, 6, [sinks], [u16; 3]); //@ group=b tier=thorough

// ---- nesting: every constructor appears at least once in a non-top position
suite!(t_opt_vec_pair, 2, 0, 6, [enc dec delim], Option<Vec<(u8, u16)>>); //@ group=b tier=thorough
suite!(t_opt_vec_pair_off, 2, 0, 6, [trunc], Option<Vec<(u8, u16)>>); //@ group=b tier=off
suite!(t_vec_opt_arr, 2, 0, 6, [enc dec delim], Vec<Option<[u16; 1]>>); //@ group=b tier=thorough
suite!(t_vec_opt_arr_off, 2, 0, 6, [trunc], Vec<Option<[u16; 1]>>); //@ group=b tier=off
suite!(t_mixed_tuple, 1, 1, 8, [enc], (u8, Vec<u16>, Option<String>)); //@ group=b tier=thorough
suite!(t_mixed_tuple_off, 1, 1, 8, [dec delim trunc], (u8, Vec<u16>, Option<String>)); //@ group=b tier=off
suite!(t_res_box_tuple, 0, 0, 4, [enc dec delim trunc], Result<Box<(u8,)>, u32>); //@ group=b tier=thorough
suite!(t_vec_vec, 2, 0, 6, [enc], Vec<Vec<u8>>); //@ group=b tier=thorough
suite!(t_vec_vec_off, 2, 0, 6, [dec], Vec<Vec<u8>>); //@ group=b tier=off
suite!(t_vec_string, 2, 1, 8, [enc], Vec<String>); //@ group=b tier=thorough
suite!(t_vec_string_off, 2, 1, 8, [dec], Vec<String>); //@ group=b tier=off

// ---- uuid and chrono (full value ranges; validity of calendar fields decided by chrono)
suite!(t_uuid, 0, 0, 18, [enc dec delim trunc], uuid::Uuid); //@ group=b tier=quick
suite!(t_weekday, 0, 0, 4, [enc dec delim trunc], chrono::Weekday); //@ group=b tier=quick
suite!(t_month, 0, 0, 4, [enc dec delim trunc], chrono::Month); //@ group=b tier=thorough
suite!(t_fixed_offset, 0, 0, 4, [enc dec delim], chrono::FixedOffset); //@ group=b tier=thorough
suite!(t_fixed_offset_off, 0, 0, 4, [trunc], chrono::FixedOffset); //@ group=b tier=off
suite!(t_datetime_utc, 0, 0, 4, [enc dec delim trunc], chrono::DateTime<chrono::Utc>); //@ group=b tier=off
suite!(t_naive_date, 0, 0, 4, [enc dec delim], chrono::NaiveDate); //@ group=b tier=quick cap=900
suite!(t_naive_date_thorough, 0, 0, 4, [trunc], chrono::NaiveDate); //@ group=b tier=off cap=900
suite!(t_naive_time, 0, 0, 4, [enc dec delim], chrono::NaiveTime); //@ group=b tier=thorough cap=900
suite!(t_naive_time_off, 0, 0, 4, [trunc], chrono::NaiveTime); //@ group=b tier=off cap=900
suite!(t_naive_datetime_off, 0, 0, 4, [enc], chrono::NaiveDateTime); //@ group=b tier=off
suite!(t_naive_datetime, 0, 0, 4, [dec], chrono::NaiveDateTime); //@ group=b tier=thorough
suite!(t_datetime_fixed_off, 0, 0, 4, [enc], chrono::DateTime<chrono::FixedOffset>); //@ group=b tier=off
suite!(t_datetime_fixed, 0, 0, 4, [dec], chrono::DateTime<chrono::FixedOffset>); //@ group=b tier=thorough
