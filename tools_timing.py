import re,glob,json,sys
def parse(logp):
    try: log=open(logp).read()
    except Exception: return {}
    cur={}; res={}
    lines=log.split('\n')
    for idx,line in enumerate(lines):
        m=re.match(r'Thread (\d+): Checking harness (\S+)\.\.\.',line)
        if m: cur[m.group(1)]=m.group(2); continue
        m=re.match(r'Thread (\d+): *$',line)
        if m:
            t=m.group(1)
            blk='\n'.join(lines[idx:idx+14])
            st='SUCCESS' if 'VERIFICATION:- SUCCESSFUL' in blk else ('TIMEOUT' if 'timed out' in blk else ('FAILED' if 'VERIFICATION:- FAILED' in blk else '?'))
            tm=re.search(r'Verification Time: ([\d.]+)s',blk)
            res[cur.get(t)]=(st,float(tm.group(1)) if tm else None)
    return res
allr={}
for p in sys.argv[1:]:
    r=parse(p); print(p,len(r))
    allr.update(r)
json.dump(allr,open('/tmp/timing.json','w'),indent=0)
for st in ('SUCCESS','TIMEOUT','FAILED','?'):
    xs=sorted([(v[1] or 0,k) for k,v in allr.items() if v[0]==st])
    print(st,len(xs))
    print('  '+'\n  '.join('%6.0f %s'%x for x in xs))
