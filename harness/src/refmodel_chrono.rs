//! Reference model of the chrono layouts (DESIGN.md §4.1). Validity of calendar fields is decided
//! by chrono's own constructors on both sides (chrono is trusted); the *layout* is independent.
use crate::refmodel::{Buf, Model, Rd, Shape};
use crate::sym;
use chrono::{
    DateTime, Datelike, FixedOffset, Month, NaiveDate, NaiveDateTime, NaiveTime, TimeZone, Timelike,
    Utc, Weekday,
};

fn weekday_of(n: u8) -> Option<Weekday> {
    Some(match n {
        1 => Weekday::Mon,
        2 => Weekday::Tue,
        3 => Weekday::Wed,
        4 => Weekday::Thu,
        5 => Weekday::Fri,
        6 => Weekday::Sat,
        7 => Weekday::Sun,
        _ => return None,
    })
}

impl Model for Weekday {
    fn arb(_sh: &mut Shape) -> Self {
        match weekday_of(sym::below(7) + 1) {
            Some(w) => w,
            None => Weekday::Mon,
        }
    }
    fn enc(&self, b: &mut Buf) {
        b.u8(self.number_from_monday() as u8);
    }
    fn dec(r: &mut Rd) -> Option<Self> {
        weekday_of(r.u8()?)
    }
    fn same(&self, o: &Self) -> bool {
        self.number_from_monday() == o.number_from_monday()
    }
}

fn month_of(n: u8) -> Option<Month> {
    Some(match n {
        1 => Month::January,
        2 => Month::February,
        3 => Month::March,
        4 => Month::April,
        5 => Month::May,
        6 => Month::June,
        7 => Month::July,
        8 => Month::August,
        9 => Month::September,
        10 => Month::October,
        11 => Month::November,
        12 => Month::December,
        _ => return None,
    })
}

impl Model for Month {
    fn arb(_sh: &mut Shape) -> Self {
        match month_of(sym::below(12) + 1) {
            Some(w) => w,
            None => Month::January,
        }
    }
    fn enc(&self, b: &mut Buf) {
        b.u8(self.number_from_month() as u8);
    }
    fn dec(r: &mut Rd) -> Option<Self> {
        month_of(r.u8()?)
    }
    fn same(&self, o: &Self) -> bool {
        self.number_from_month() == o.number_from_month()
    }
}

impl Model for FixedOffset {
    fn arb(_sh: &mut Shape) -> Self {
        let s = sym::range_i64(-86_399, 86_399) as i32;
        match FixedOffset::east_opt(s) {
            Some(o) => o,
            None => {
                sym::assume(false);
                FixedOffset::east_opt(0).unwrap()
            }
        }
    }
    fn enc(&self, b: &mut Buf) {
        b.u8(0);
        b.vari(self.local_minus_utc());
    }
    fn dec(r: &mut Rd) -> Option<Self> {
        if r.u8()? != 0 {
            return None;
        }
        FixedOffset::east_opt(r.vari()?)
    }
    fn same(&self, o: &Self) -> bool {
        self.local_minus_utc() == o.local_minus_utc()
    }
}

impl Model for DateTime<Utc> {
    fn arb(_sh: &mut Shape) -> Self {
        // chrono's representable range is a subset of this interval; the rest is assumed away below
        let secs = sym::range_i64(-8_334_601_228_800, 8_210_266_876_799);
        let nanos = sym::range_i64(0, 1_999_999_999) as u32;
        match DateTime::<Utc>::from_timestamp(secs, nanos) {
            Some(d) => d,
            None => {
                sym::assume(false);
                DateTime::<Utc>::from_timestamp(0, 0).unwrap()
            }
        }
    }
    fn enc(&self, b: &mut Buf) {
        b.be8(self.timestamp() as u64);
        b.be4(self.timestamp_subsec_nanos());
    }
    fn dec(r: &mut Rd) -> Option<Self> {
        let secs = r.be8()? as i64;
        let nanos = r.be4()?;
        DateTime::<Utc>::from_timestamp(secs, nanos)
    }
    fn same(&self, o: &Self) -> bool {
        self.timestamp() == o.timestamp() && self.timestamp_subsec_nanos() == o.timestamp_subsec_nanos()
    }
}

impl Model for NaiveDate {
    fn arb(_sh: &mut Shape) -> Self {
        let y = sym::range_i64(-262_143, 262_142) as i32;
        let m = sym::below(12) + 1;
        let d = sym::below(31) + 1;
        match NaiveDate::from_ymd_opt(y, m as u32, d as u32) {
            Some(x) => x,
            None => {
                sym::assume(false);
                NaiveDate::from_ymd_opt(2000, 1, 1).unwrap()
            }
        }
    }
    fn enc(&self, b: &mut Buf) {
        b.varu(self.year() as u32);
        b.u8(self.month() as u8);
        b.u8(self.day() as u8);
    }
    fn dec(r: &mut Rd) -> Option<Self> {
        let y = r.varu()? as i32;
        let m = r.u8()?;
        let d = r.u8()?;
        NaiveDate::from_ymd_opt(y, m as u32, d as u32)
    }
    fn same(&self, o: &Self) -> bool {
        self.year() == o.year() && self.month() == o.month() && self.day() == o.day()
    }
}

impl Model for NaiveTime {
    fn arb(_sh: &mut Shape) -> Self {
        let h = sym::below(24);
        let m = sym::below(60);
        let s = sym::below(60);
        let n = sym::range_i64(0, 1_999_999_999) as u32;
        match NaiveTime::from_hms_nano_opt(h as u32, m as u32, s as u32, n) {
            Some(x) => x,
            None => {
                sym::assume(false);
                NaiveTime::from_hms_opt(0, 0, 0).unwrap()
            }
        }
    }
    fn enc(&self, b: &mut Buf) {
        b.u8(self.hour() as u8);
        b.u8(self.minute() as u8);
        b.u8(self.second() as u8);
        b.varu(self.nanosecond());
    }
    fn dec(r: &mut Rd) -> Option<Self> {
        let h = r.u8()?;
        let m = r.u8()?;
        let s = r.u8()?;
        let n = r.varu()?;
        NaiveTime::from_hms_nano_opt(h as u32, m as u32, s as u32, n)
    }
    fn same(&self, o: &Self) -> bool {
        self.hour() == o.hour()
            && self.minute() == o.minute()
            && self.second() == o.second()
            && self.nanosecond() == o.nanosecond()
    }
}

impl Model for NaiveDateTime {
    fn arb(sh: &mut Shape) -> Self {
        NaiveDateTime::new(NaiveDate::arb(sh), NaiveTime::arb(sh))
    }
    fn enc(&self, b: &mut Buf) {
        self.date().enc(b);
        self.time().enc(b);
    }
    fn dec(r: &mut Rd) -> Option<Self> {
        let d = NaiveDate::dec(r)?;
        let t = NaiveTime::dec(r)?;
        Some(NaiveDateTime::new(d, t))
    }
    fn same(&self, o: &Self) -> bool {
        self.date().same(&o.date()) && self.time().same(&o.time())
    }
}

impl Model for DateTime<FixedOffset> {
    fn arb(sh: &mut Shape) -> Self {
        let naive = NaiveDateTime::arb(sh);
        let off = FixedOffset::arb(sh);
        match off.from_local_datetime(&naive).single() {
            Some(x) => x,
            None => {
                sym::assume(false);
                off.from_utc_datetime(&naive)
            }
        }
    }
    fn enc(&self, b: &mut Buf) {
        self.naive_local().enc(b);
        self.offset().enc(b);
    }
    fn dec(r: &mut Rd) -> Option<Self> {
        let naive = NaiveDateTime::dec(r)?;
        let off = FixedOffset::dec(r)?;
        off.from_local_datetime(&naive).single()
    }
    fn same(&self, o: &Self) -> bool {
        self.naive_local().same(&o.naive_local()) && self.offset().same(o.offset())
    }
}
