//! Generic check bodies shared by the harnesses of several properties. Every function takes the
//! real desert entry points on one side and the reference model on the other.
#![allow(dead_code)]

use crate::refmodel::{Buf, Model, Rd, Shape, CAP};
use crate::sym;
use desert_core::{
    BinaryDeserializer, BinaryInput, BinaryOutput, BinarySerializer, DeserializationContext,
    SizeCalculator,
};

/// `f(i)` for i = 0..48 without a loop (independent of the unwinding bound of the harness).
macro_rules! unrolled48 {
    ($f:expr) => {{
        let mut f = $f;
        f(0); f(1); f(2); f(3); f(4); f(5); f(6); f(7); f(8); f(9); f(10); f(11);
        f(12); f(13); f(14); f(15); f(16); f(17); f(18); f(19); f(20); f(21); f(22); f(23);
        f(24); f(25); f(26); f(27); f(28); f(29); f(30); f(31); f(32); f(33); f(34); f(35);
        f(36); f(37); f(38); f(39); f(40); f(41); f(42); f(43); f(44); f(45); f(46); f(47);
    }};
}

/// the byte string `out` is exactly the reference encoding `r`
pub fn assert_bytes_eq(out: &[u8], r: &Buf) {
    assert!(out.len() == r.n, "encoded length differs from the reference encoding");
    unrolled48!(|i: usize| {
        if i < r.n && i < out.len() {
            assert!(out[i] == r.b[i], "encoded byte differs from the reference encoding");
        }
    });
    assert!(CAP == 48);
}

/// A sink that keeps the produced bytes *outside* the serialization context, so that the context
/// (with its string and object tables) can be `mem::forget`-ten instead of dropped: the drop glue
/// of a non-empty table is one of the things CBMC does not get through (DESIGN §2.4). The sink is
/// harness machinery; the properties it is used for speak about the bytes, whatever
/// `BinaryOutput` receives them.
pub struct Probe {
    pub buf: *mut [u8; CAP],
    pub n: *mut usize,
}

impl desert_core::BinaryOutput for Probe {
    fn write_u8(&mut self, value: u8) {
        unsafe {
            let n = *self.n;
            assert!(n < CAP, "probe sink overflow");
            (*self.buf)[n] = value;
            *self.n = n + 1;
        }
    }
    fn write_bytes(&mut self, bytes: &[u8]) {
        let mut i = 0;
        while i < bytes.len() {
            self.write_u8(bytes[i]);
            i += 1;
        }
    }
}

/// the first `n` bytes of a probe's store are exactly the reference encoding `r`
pub fn assert_probe_eq(store: &[u8; CAP], n: usize, r: &Buf) {
    assert!(n == r.n, "encoded length differs from the reference encoding");
    unrolled48!(|i: usize| {
        if i < r.n {
            assert!(store[i] == r.b[i], "encoded byte differs from the reference encoding");
        }
    });
}

/// Run `f` on one value per shape of `T` (all shapes within `maxv`/`maxs`), payload symbolic.
/// Straight-line: at most 32 shapes; more is reported as a harness error.
pub fn for_shapes<T: Model>(maxv: u8, maxs: u8, mut f: impl FnMut(&T)) -> u32 {
    let mut sh = Shape::concrete(maxv, maxs);
    let mut step = |sh: &mut Shape| {
        if !sh.done {
            sh.begin();
            let v = T::arb(sh);
            f(&v);
            std::mem::forget(v);
            sh.advance();
        }
    };
    step(&mut sh); step(&mut sh); step(&mut sh); step(&mut sh);
    step(&mut sh); step(&mut sh); step(&mut sh); step(&mut sh);
    step(&mut sh); step(&mut sh); step(&mut sh); step(&mut sh);
    step(&mut sh); step(&mut sh); step(&mut sh); step(&mut sh);
    step(&mut sh); step(&mut sh); step(&mut sh); step(&mut sh);
    step(&mut sh); step(&mut sh); step(&mut sh); step(&mut sh);
    step(&mut sh); step(&mut sh); step(&mut sh); step(&mut sh);
    step(&mut sh); step(&mut sh); step(&mut sh); step(&mut sh);
    assert!(sh.done, "harness error: more than 32 shapes");
    sh.count
}

/// One value with every choice symbolic (cheap types only).
pub fn symbolic_value<T: Model>(maxv: u8, maxs: u8) -> T {
    let mut sh = Shape::symbolic(maxv, maxs);
    T::arb(&mut sh)
}

/// C01/C02/C04 encode half: real bytes == reference bytes.
pub fn enc_check<T: Model + BinarySerializer>(v: &T) {
    let mut r = Buf::new();
    v.enc(&mut r);
    match desert_core::serialize(v, Vec::new()) {
        Ok(out) => {
            assert_bytes_eq(&out, &r);
            crate::cover!(true);
            std::mem::forget(out);
        }
        Err(e) => {
            std::mem::forget(e);
            assert!(false, "encoding of a supported value failed");
        }
    }
}

/// C01/C02/C04 decode half: real decode of the reference bytes == the value.
pub fn dec_check<T: Model + BinaryDeserializer>(v: &T) {
    let mut r = Buf::new();
    v.enc(&mut r);
    match desert_core::deserialize::<T>(&r.b[..r.n]) {
        Ok(w) => {
            assert!(v.same(&w), "decoded value differs from the encoded one");
            crate::cover!(true);
            std::mem::forget(w);
        }
        Err(e) => {
            std::mem::forget(e);
            assert!(false, "decoding of a reference encoding failed");
        }
    }
}

/// C07: decoding from `ref(v) ++ s` returns v and leaves exactly `s` (|s| = 2) unread.
pub fn delim_check<T: Model + BinaryDeserializer>(v: &T) {
    let mut r = Buf::new();
    v.enc(&mut r);
    let n = r.n;
    let s0 = sym::u8_();
    let s1 = sym::u8_();
    r.u8(s0);
    r.u8(s1);
    let mut ctx = DeserializationContext::new(&r.b[..n + 2]);
    match T::deserialize(&mut ctx) {
        Ok(w) => {
            assert!(v.same(&w), "decoded value differs when followed by more data");
            std::mem::forget(w);
            assert!(matches!(ctx.read_u8(), Ok(x) if x == s0), "first byte after the value is not the first suffix byte");
            assert!(matches!(ctx.read_u8(), Ok(x) if x == s1), "second byte after the value is not the second suffix byte");
            match ctx.read_u8() {
                Ok(_) => assert!(false, "bytes left after the suffix"),
                Err(e) => std::mem::forget(e),
            }
            crate::cover!(true);
        }
        Err(e) => {
            std::mem::forget(e);
            assert!(false, "decoding failed when followed by more data");
        }
    }
    std::mem::forget(ctx);
}

/// C08: every strict prefix of `ref(v)` is an error. The cut points are enumerated with concrete
/// lengths (a symbolic slice length defeats CBMC's constant folding of the structure bytes); all
/// payload bits stay symbolic, so every (value, cut point) pair of the shape is covered.
pub fn trunc_check<T: Model + BinaryDeserializer>(v: &T) {
    let mut r = Buf::new();
    v.enc(&mut r);
    let n = r.n;
    unrolled48!(|k: usize| {
        if k < n {
            match desert_core::deserialize::<T>(&r.b[..k]) {
                Ok(w) => {
                    std::mem::forget(w);
                    assert!(false, "a strict prefix of a valid encoding was decoded");
                }
                Err(e) => {
                    crate::cover!(k + 1 == n);
                    std::mem::forget(e);
                }
            }
        }
    });
}

/// C05/C06 on a raw buffer: never a panic; `Ok(v)` implies the reference decoder yields `v`;
/// (C04 converse) the reference decoder accepting implies desert accepts.
pub fn raw_check<T: Model + BinaryDeserializer>(buf: &[u8], demand_ok_if_ref_ok: bool) {
    let real = desert_core::deserialize::<T>(buf);
    let mut rd = Rd::new(buf);
    let reference = T::dec(&mut rd);
    match real {
        Ok(w) => {
            match &reference {
                Some(x) => assert!(x.same(&w), "accepted input decoded to a value other than the one the format assigns"),
                None => assert!(false, "input rejected by the format was decoded into a value"),
            }
            crate::cover!(true);
            std::mem::forget(w);
        }
        Err(e) => {
            if demand_ok_if_ref_ok {
                assert!(reference.is_none(), "well-formed input was rejected");
            }
            std::mem::forget(e);
        }
    }
    std::mem::forget(reference);
}

/// A user-defined output that records the calls it receives (C15).
pub struct Recorder {
    pub b: [u8; CAP],
    pub n: usize,
}

impl BinaryOutput for Recorder {
    fn write_u8(&mut self, value: u8) {
        if self.n < CAP {
            self.b[self.n] = value;
        }
        self.n += 1;
    }
    fn write_bytes(&mut self, bytes: &[u8]) {
        let end = self.n + bytes.len();
        if end <= CAP {
            self.b[self.n..end].copy_from_slice(bytes);
        }
        self.n = end;
    }
}

/// C15 sinks: all outputs produce the reference bytes; SizeCalculator is exact.
pub fn sinks_check<T: Model + BinarySerializer>(v: &T) {
    let mut r = Buf::new();
    v.enc(&mut r);
    match desert_core::serialize(v, Vec::new()) {
        Ok(out) => {
            assert_bytes_eq(&out, &r);
            std::mem::forget(out);
        }
        Err(e) => {
            std::mem::forget(e);
            assert!(false);
        }
    }
    match desert_core::serialize(v, bytes::BytesMut::new()) {
        Ok(out) => {
            assert_bytes_eq(&out[..], &r);
            std::mem::forget(out);
        }
        Err(e) => {
            std::mem::forget(e);
            assert!(false);
        }
    }
    match desert_core::serialize_to_byte_vec(v) {
        Ok(out) => {
            assert_bytes_eq(&out, &r);
            std::mem::forget(out);
        }
        Err(e) => {
            std::mem::forget(e);
            assert!(false);
        }
    }
    match desert_core::serialize_to_bytes(v) {
        Ok(out) => {
            assert_bytes_eq(&out[..], &r);
            std::mem::forget(out);
        }
        Err(e) => {
            std::mem::forget(e);
            assert!(false);
        }
    }
    match desert_core::serialize(v, Recorder { b: [0; CAP], n: 0 }) {
        Ok(out) => {
            assert!(out.n <= CAP);
            assert_bytes_eq(&out.b[..out.n], &r);
        }
        Err(e) => {
            std::mem::forget(e);
            assert!(false);
        }
    }
    match desert_core::serialize(v, SizeCalculator::new()) {
        Ok(out) => {
            assert!(out.size() == r.n, "SizeCalculator disagrees with the number of bytes written");
            crate::cover!(true);
        }
        Err(e) => {
            std::mem::forget(e);
            assert!(false);
        }
    }
}
