#include <stddef.h>
/* Verification model of memcpy/memmove for small sizes: byte-wise, loop-free, so that CBMC's
   constant propagation sees through copies of short strings and buffers. Larger sizes fall back
   to CBMC's own array-copy model. */
void *memcpy(void *dst, const void *src, size_t n) {
  unsigned char *d = (unsigned char *)dst; const unsigned char *s = (const unsigned char *)src;
  if (n <= 32) {
    if (n > 0) d[0] = s[0];
    if (n > 1) d[1] = s[1];
    if (n > 2) d[2] = s[2];
    if (n > 3) d[3] = s[3];
    if (n > 4) d[4] = s[4];
    if (n > 5) d[5] = s[5];
    if (n > 6) d[6] = s[6];
    if (n > 7) d[7] = s[7];
    if (n > 8) d[8] = s[8];
    if (n > 9) d[9] = s[9];
    if (n > 10) d[10] = s[10];
    if (n > 11) d[11] = s[11];
    if (n > 12) d[12] = s[12];
    if (n > 13) d[13] = s[13];
    if (n > 14) d[14] = s[14];
    if (n > 15) d[15] = s[15];
    if (n > 16) d[16] = s[16];
    if (n > 17) d[17] = s[17];
    if (n > 18) d[18] = s[18];
    if (n > 19) d[19] = s[19];
    if (n > 20) d[20] = s[20];
    if (n > 21) d[21] = s[21];
    if (n > 22) d[22] = s[22];
    if (n > 23) d[23] = s[23];
    if (n > 24) d[24] = s[24];
    if (n > 25) d[25] = s[25];
    if (n > 26) d[26] = s[26];
    if (n > 27) d[27] = s[27];
    if (n > 28) d[28] = s[28];
    if (n > 29) d[29] = s[29];
    if (n > 30) d[30] = s[30];
    if (n > 31) d[31] = s[31];
  } else {
    unsigned char src_n[n];
    __CPROVER_array_copy(src_n, (unsigned char *)src);
    __CPROVER_array_replace((unsigned char *)dst, src_n);
  }
  return dst;
}
