//! C03 / C06 / C07 on records with an evolution header (stored version >= 1), decomposed into two
//! kernels because whole-record decoding is out of CBMC's reach (DESIGN.md §2.4):
//!
//!  K1  `AdtDeserializer::new`: concrete header shapes, symbolic chunk bytes -> the chunk windows,
//!      made-optional positions and removed names it computes are exactly the header's, and the
//!      cursor is left after the last chunk (whatever the reader's own version is).
//!  K2  the field readers, from the state K1 establishes (built with the `verif_from_parts` hook):
//!      the documented outcome table of `read_field` / `read_optional_field`.
//!
//! K1 ; K2 is what the derived decoder does for every record, so together they give the
//! per-record behaviour by composition (the composition itself is an informal argument).
use crate::refmodel::Buf;
use crate::sym;
use desert_core::adt::{AdtDeserializer, AdtMetadata};
use desert_core::{BinaryInput, DeserializationContext, Error, Evolution};

/// metadata of a reader definition with `v` FieldAdded steps f1..fv (reader version = v)
fn reader_metadata(v: u8) -> AdtMetadata {
    let mut steps = vec![Evolution::InitialVersion];
    if v >= 1 { steps.push(Evolution::FieldAdded { name: "f1".to_string() }); }
    if v >= 2 { steps.push(Evolution::FieldAdded { name: "f2".to_string() }); }
    if v >= 3 { steps.push(Evolution::FieldAdded { name: "f3".to_string() }); }
    AdtMetadata::new(steps)
}

/// One header entry of the catalogue.
#[derive(Clone, Copy)]
enum Step {
    Chunk(usize),
    MadeOptional(u8),
    Removed(u8), // field name = one ASCII letter
}

/// K1 for one header (entries concrete, chunk bytes and the two trailing bytes symbolic) and one
/// reader version.
fn header_kernel(steps: &[Step], reader_version: u8) {
    let mut b = Buf::new();
    let mut total = 0;
    let mut i = 0;
    while i < steps.len() {
        match steps[i] {
            Step::Chunk(n) => { b.vari(n as i32); total += n; }
            Step::MadeOptional(pos_byte) => { b.vari(-1); b.u8(pos_byte); }
            Step::Removed(letter) => { b.vari(-2); b.dedup_str(&[letter]); }
        }
        i += 1;
    }
    let header_len = b.n;
    let payload: [u8; 8] = sym::bytes();
    // loop-free copy of total + 2 payload bytes (keeps the unwinding bound at the header length)
    let n = total + 2;
    if n > 0 { b.u8(payload[0]); } if n > 1 { b.u8(payload[1]); } if n > 2 { b.u8(payload[2]); }
    if n > 3 { b.u8(payload[3]); } if n > 4 { b.u8(payload[4]); } if n > 5 { b.u8(payload[5]); }
    if n > 6 { b.u8(payload[6]); } if n > 7 { b.u8(payload[7]); }
    assert!(n <= 8);
    let meta = reader_metadata(reader_version);
    let mut ctx = DeserializationContext::new(&b.b[..b.n]);
    let stored_version = (steps.len() - 1) as u8;
    match AdtDeserializer::new(&meta, &mut ctx, stored_version) {
        Ok(d) => {
            let inputs = d.verif_inputs();
            assert!(inputs.len() == steps.len(), "one chunk window per header entry expected");
            assert!(d.verif_stored_version() == stored_version);
            let mut start = header_len;
            let mut k = 0;
            while k < steps.len() {
                match steps[k] {
                    Step::Chunk(n) if n > 0 => {
                        assert!(inputs[k] == (start, 0, start + n), "chunk window differs from the header's size");
                        start += n;
                    }
                    Step::Chunk(_) => {
                        // a zero-sized chunk has an empty window (wherever it is anchored)
                        assert!(inputs[k].2 - inputs[k].0 == 0 && inputs[k].1 == 0);
                    }
                    Step::MadeOptional(pos_byte) => {
                        assert!(inputs[k] == (0, 0, 0));
                        let sb = pos_byte as i8;
                        let (chunk, position) = if sb <= 0 { (0u8, (-(sb as i16)) as u8) } else { (sb as u8, 0u8) };
                        assert!(d.verif_made_optional_at(chunk, position) == Some(k as u8), "made-optional position not recorded under its step");
                    }
                    Step::Removed(letter) => {
                        assert!(inputs[k] == (0, 0, 0));
                        let name = [letter];
                        assert!(d.verif_is_removed(std::str::from_utf8(&name).unwrap_or("")), "removed field name not recorded");
                    }
                }
                k += 1;
            }
            assert!(!d.verif_is_removed("zz"));
            std::mem::forget(inputs);
            std::mem::forget(d);
            // the cursor is after the last chunk: exactly the two trailing bytes are left
            assert!(ctx.verif_pos() == header_len + total, "record reader did not advance over all chunks");
            assert!(matches!(ctx.read_u8(), Ok(x) if x == payload[total]));
            assert!(matches!(ctx.read_u8(), Ok(x) if x == payload[total + 1]));
            cover!(true);
        }
        Err(e) => {
            std::mem::forget(e);
            assert!(false, "a well-formed evolution header was rejected");
        }
    }
    std::mem::forget(ctx);
    std::mem::forget(meta);
}

macro_rules! header {
    ($name:ident, $rv:expr, [$($s:expr),+]) => {
        proof! { fn $name() unwind(6) { header_kernel(&[$($s),+], $rv); } }
    };
}

//@ props=C03,C07,C06 tier=quick bounds=K1:header[chunk1,chunk2];reader-version-1(same);chunk-bytes-symbolic cap=900
header!(c03_k1_two_chunks_same, 1, [Step::Chunk(1), Step::Chunk(2)]);
//@ props=C03,C07,C06 tier=quick bounds=K1:header[chunk1,chunk2,chunk1];reader-version-0(older-reader:unknown-chunks-skipped) cap=900
header!(c03_k1_three_chunks_old_reader, 0, [Step::Chunk(1), Step::Chunk(2), Step::Chunk(1)]);
//@ props=C03,C07,C06,C05 tier=quick bounds=K1:header[chunk2,chunk0,chunk1];reader-version-2(zero-sized-chunk-in-the-middle,whose-size-byte-0x00-is-also-the-code-of-an-unknown-step);one-window-per-stored-generation(the-invariant-the-field-readers-index-by) cap=900
header!(c03_k1_empty_chunk, 2, [Step::Chunk(2), Step::Chunk(0), Step::Chunk(1)]);
//@ props=C03,C07,C06 tier=quick bounds=K1:header[chunk2,made-optional(pos-1),chunk1];reader-version-3(newer-reader) cap=900
header!(c03_k1_made_optional, 3, [Step::Chunk(2), Step::MadeOptional(0xff), Step::Chunk(1)]);
//@ props=C03,C07,C06,C09 tier=thorough bounds=K1:header[chunk1,removed("b"),chunk1];reader-version-1 cap=2400
header!(c03_k1_removed, 1, [Step::Chunk(1), Step::Removed(b'b'), Step::Chunk(1)]);
//@ props=C03,C07,C06 tier=thorough bounds=K1:header[chunk1,chunk1,chunk1,chunk1];reader-version-1 cap=2400
header!(c03_k1_four_chunks, 1, [Step::Chunk(1), Step::Chunk(1), Step::Chunk(1), Step::Chunk(1)]);

// ------------------------------------------------------------------ K2: field readers

/// reader definition used by K2: history [Initial{a,b}, FieldAdded(f1), FieldMadeOptional(b)],
/// i.e. chunk 0 holds a, b and chunk 1 holds f1; `b` is optional since version 2
fn k2_metadata() -> AdtMetadata {
    AdtMetadata::new(vec![
        Evolution::InitialVersion,
        Evolution::FieldAdded { name: "f1".to_string() },
        Evolution::FieldMadeOptional { name: "b".to_string() },
    ])
}

fn err_is<T>(r: desert_core::Result<T>, pred: impl Fn(&Error) -> bool, msg: &'static str) {
    match r {
        Ok(v) => { std::mem::forget(v); assert!(false, "{}", msg); }
        Err(e) => { assert!(pred(&e), "{}", msg); std::mem::forget(e); }
    }
}

proof! {
    //@ props=C03,C06,C02 tier=quick bounds=K2:same-version(2)-reader;chunk0={a,b:Option(made-optional),c},chunk1={f1};header-says-b-made-optional;payload-symbolic cap=900
    fn c03_k2_same_version() unwind(6) {
        // stored version 2 data of {a: u8, b: Option<u8>, c: u8, f1: u8}: chunk0 = a, tag, b, c; chunk1 = f1
        let mut data: [u8; 6] = sym::bytes();
        data[1] = 1; // b is Some
        let meta = k2_metadata();
        let mut ctx = DeserializationContext::new(&data);
        let mut d = AdtDeserializer::verif_from_parts(&meta, &mut ctx, 2, &[(0, 4), (4, 1), (0, 0)], &[(0, 1, 2)], &[]);
        let a = d.read_field::<u8>("a", None);
        assert!(matches!(a, Ok(x) if x == data[0]), "field a not taken from the start of chunk 0");
        let b = d.read_optional_field::<u8>("b", None);
        assert!(matches!(b, Ok(Some(x)) if x == data[2]), "optional field b not read as tag + value from chunk 0");
        // a required field after the optional one: its position is 2, which is not marked made-optional
        let c = d.read_field::<u8>("c", None);
        assert!(matches!(c, Ok(x) if x == data[3]), "a required field after an optional one was not read as a plain value");
        let f1 = d.read_field::<u8>("f1", Some(9));
        assert!(matches!(f1, Ok(x) if x == data[4]), "added field f1 not taken from chunk 1");
        let inputs = d.verif_inputs();
        assert!(inputs[0] == (0, 4, 4) && inputs[1] == (4, 1, 5), "field reads did not advance their own chunk cursors only");
        std::mem::forget(inputs);
        std::mem::forget(d);
        assert!(ctx.verif_pos() == 0, "field reads moved the record cursor");
        std::mem::forget(ctx);
        std::mem::forget(meta);
    }
}

proof! {
    //@ props=C03,C06 tier=quick bounds=K2:old-reader(definition-without-the-made-optional-step)-on-version-2-data:unwraps-Some,rejects-None;position-counting-across-an-optional-field cap=900
    fn c03_k2_old_reader_unwraps() unwind(6) {
        // reader definition: {t: Option<u8>, b: u8} with no steps; data written by a definition that
        // made b optional (header: made-optional at chunk 0 position 1): chunk0 = t tag,[t], b tag,[b]
        let meta = AdtMetadata::new(vec![Evolution::InitialVersion]);
        let mut data: [u8; 5] = sym::bytes();
        data[0] = 1; // t = Some(data[1])
        let b_some = sym::bool_();
        data[2] = if b_some { 1 } else { 0 };
        let mut ctx = DeserializationContext::new(&data);
        let mut d = AdtDeserializer::verif_from_parts(&meta, &mut ctx, 1, &[(0, 4), (0, 0)], &[(0, 1, 1)], &[]);
        let t = d.read_optional_field::<u8>("t", None);
        assert!(matches!(t, Ok(Some(x)) if x == data[1]));
        let b = d.read_field::<u8>("b", None);
        if b_some {
            assert!(matches!(b, Ok(x) if x == data[3]), "a field written as Some by a newer definition must be unwrapped");
            cover!(true);
        } else {
            err_is(b, |e| matches!(e, Error::NonOptionalFieldSerializedAsNone(_)), "a required field written as None must fail with its specific error");
        }
        std::mem::forget(d);
        std::mem::forget(ctx);
        std::mem::forget(meta);
    }
}

proof! {
    //@ props=C03 tier=quick bounds=K2:newer-reader-on-older-data:missing-chunk->default-or-specific-error;stored-version<made-optional-step->wrap-Some cap=900
    fn c03_k2_new_reader_defaults() unwind(6) {
        // stored version 0 written with a header-less... here: stored version 1? no: version 0 data has no
        // windows at all (inputs empty) and is read in place: a, b then nothing for f1
        let meta = k2_metadata();
        let data: [u8; 3] = sym::bytes();
        let mut ctx = DeserializationContext::new(&data);
        let mut d = AdtDeserializer::verif_from_parts(&meta, &mut ctx, 0, &[], &[], &[]);
        let a = d.read_field::<u8>("a", None);
        assert!(matches!(a, Ok(x) if x == data[0]));
        // b was a plain u8 in version 0: the newer definition wraps it
        let b = d.read_optional_field::<u8>("b", None);
        assert!(matches!(b, Ok(Some(x)) if x == data[1]), "a field made optional later must be wrapped in Some when old data is read");
        // f1 was added in version 1: default, or the specific error without one
        let f1 = d.read_field::<u8>("f1", Some(9));
        assert!(matches!(f1, Ok(9)), "an added field missing from old data takes its default");
        err_is(d.read_field::<u8>("f1", None), |e| matches!(e, Error::FieldWithoutDefaultValueIsMissing(_)), "a missing field without default must fail with its specific error");
        std::mem::forget(d);
        // version-0 data is read in place: the cursor moved over a and b only
        assert!(ctx.verif_pos() == 2);
        std::mem::forget(ctx);
        std::mem::forget(meta);
    }
}

proof! {
    //@ props=C03,C06 tier=quick bounds=K2:removed-field(named-by-the-stored-header,not-by-the-reader):required->FieldRemovedInSerializedVersion,optional->None-whatever-its-added-default cap=900
    fn c03_k2_removed_field() unwind(6) {
        let meta = k2_metadata();
        let data: [u8; 3] = sym::bytes();
        let mut ctx = DeserializationContext::new(&data);
        let mut d = AdtDeserializer::verif_from_parts(&meta, &mut ctx, 2, &[(0, 1), (1, 1), (0, 0)], &[], &["b"]);
        let a = d.read_field::<u8>("a", None);
        assert!(matches!(a, Ok(x) if x == data[0]));
        let b = d.read_optional_field::<u8>("b", None);
        assert!(matches!(b, Ok(None)), "a removed field reads as absent if optional");
        // ... whatever default its FieldAdded step declared: the default stands for data written
        // before the field existed, not for data written after it was removed
        let b = d.read_optional_field::<u8>("b", Some(Some(9)));
        assert!(matches!(b, Ok(None)), "a removed optional field took its added-field default instead of reading as absent");
        err_is(d.read_field::<u8>("b", None), |e| matches!(e, Error::FieldRemovedInSerializedVersion(_)), "a required field that was removed must fail with its specific error");
        let f1 = d.read_field::<u8>("f1", None);
        assert!(matches!(f1, Ok(x) if x == data[1]));
        std::mem::forget(d);
        std::mem::forget(ctx);
        std::mem::forget(meta);
    }
}

proof! {
    //@ props=C06,C03,C05 tier=quick bounds=K2:a-field-wider-than-its-chunk-window-is-an-error(chunk-size-understated),never-bytes-of-the-next-chunk cap=900
    fn c06_k2_window_confinement() unwind(6) {
        // chunk 0 window is 1 byte but the reader wants a u16 from it; chunk 1 follows directly
        let meta = k2_metadata();
        let data: [u8; 4] = sym::bytes();
        let mut ctx = DeserializationContext::new(&data);
        let mut d = AdtDeserializer::verif_from_parts(&meta, &mut ctx, 1, &[(0, 1), (1, 2)], &[], &[]);
        err_is(d.read_field::<u16>("a", None), |e| matches!(e, Error::InputEndedUnexpectedly), "a field read past the end of its chunk");
        let f1 = d.read_field::<u16>("f1", None);
        assert!(matches!(f1, Ok(x) if x == u16::from_be_bytes([data[1], data[2]])), "chunk 1 is read from its own window");
        std::mem::forget(d);
        std::mem::forget(ctx);
        std::mem::forget(meta);
    }
}


// ------------------------------------------------------------------ whole records (attempt)

proof! {
    //@ props=C03,C02 tier=off bounds=whole-record:V1{a:u8,b:u16,c:u8}(FieldAdded-c)-reading-its-own-version-1-bytes;fields-symbolic cap=1800
    fn c03_whole_v1_on_v1() unwind(6) {
        use crate::catalogue::V1;
        let mut data: [u8; 7] = sym::bytes();
        data[0] = 1;
        data[1] = 6; // zigzag(3)
        data[2] = 2; // zigzag(1)
        match desert_core::deserialize::<V1>(&data) {
            Ok(v) => {
                assert!(v.a == data[3] && v.b == u16::from_be_bytes([data[4], data[5]]) && v.c == data[6]);
                cover!(true);
            }
            Err(e) => { std::mem::forget(e); assert!(false, "a record failed to read its own encoding"); }
        }
    }
}

proof! {
    //@ props=C03,C02 tier=off bounds=whole-record:P2{a:u8,b:u16}(no-steps)-reading-version-1-bytes-of-V1:extra-chunk-skipped cap=1800
    fn c03_whole_v0def_on_v1() unwind(6) {
        use crate::catalogue::P2;
        let mut data: [u8; 9] = sym::bytes();
        data[0] = 1;
        data[1] = 6;
        data[2] = 2;
        let mut ctx = DeserializationContext::new(&data);
        match <P2 as desert_core::BinaryDeserializer>::deserialize(&mut ctx) {
            Ok(v) => {
                assert!(v.a == data[3] && v.b == u16::from_be_bytes([data[4], data[5]]));
                // the unknown chunk was skipped in full: the two trailing bytes are next
                assert!(matches!(ctx.read_u8(), Ok(x) if x == data[7]));
                assert!(matches!(ctx.read_u8(), Ok(x) if x == data[8]));
                cover!(true);
            }
            Err(e) => { std::mem::forget(e); assert!(false, "an older definition failed to read newer data"); }
        }
        std::mem::forget(ctx);
    }
}

proof! {
    //@ props=C03 tier=quick bounds=K2:optional-field-added-in-a-later-chunk-read-from-older-data:declared-default-or-error;older-data-of-a-later-made-optional-field-in-a-present-chunk:wrapped cap=900
    fn c03_k2_optional_field_missing_chunk() unwind(6) {
        // reader history: [Initial{a}, FieldAdded(f1), FieldMadeOptional(f1)]; data: stored version 1
        // (chunk 0 = a, chunk 1 = f1 as a plain u8) and stored version 0 (no f1 at all)
        let meta = AdtMetadata::new(vec![
            Evolution::InitialVersion,
            Evolution::FieldAdded { name: "f1".to_string() },
            Evolution::FieldMadeOptional { name: "f1".to_string() },
        ]);
        let data: [u8; 2] = sym::bytes();
        {
            let mut ctx = DeserializationContext::new(&data);
            let mut d = AdtDeserializer::verif_from_parts(&meta, &mut ctx, 1, &[(0, 1), (1, 1)], &[], &[]);
            assert!(matches!(d.read_field::<u8>("a", None), Ok(x) if x == data[0]));
            // stored version 1 < step 2 that made f1 optional: the plain value is wrapped
            assert!(matches!(d.read_optional_field::<u8>("f1", Some(Some(9))), Ok(Some(x)) if x == data[1]), "older data of a field made optional later must be wrapped in Some");
            std::mem::forget(d);
            std::mem::forget(ctx);
        }
        {
            let mut ctx = DeserializationContext::new(&data);
            let mut d = AdtDeserializer::verif_from_parts(&meta, &mut ctx, 0, &[], &[], &[]);
            assert!(matches!(d.read_field::<u8>("a", None), Ok(x) if x == data[0]));
            // stored version 0 < chunk 1: the field was not serialized at all -> declared default
            assert!(matches!(d.read_optional_field::<u8>("f1", Some(Some(9))), Ok(Some(9))), "an optional field missing from old data takes its declared default");
            match d.read_optional_field::<u8>("f1", None) {
                Ok(v) => { let _ = v; assert!(false, "a missing optional field without default must be an error"); }
                Err(e) => std::mem::forget(e),
            }
            cover!(true);
            std::mem::forget(d);
            std::mem::forget(ctx);
        }
        std::mem::forget(meta);
    }
}

proof! {
    // K1 and K2 in one query: no verdict within 900 s / 12 GB on either tree (the windows `new`
    // computes are symbolic for K2, §2.4), kept as a record; natively it exposes R-C05. The
    // invariant it would rely on - one window per stored generation - is K1's postcondition
    // (`c03_k1_empty_chunk`, registered under C05 for that reason).
    //@ props=C05,C03,C06 tier=off bounds=K1;K2-composed:header[chunk0(byte-0x00),chunk1];reader-version-1:every-stored-generation-keeps-its-own-window-index,field-reads-neither-panic-nor-shift cap=900
    fn c05_k1_then_fields_zero_chunk() unwind(6) {
        // 01 | 00 02 | payload: version 1, generation 0 is empty (its size byte 0x00 is also the
        // code of an unknown step), generation 1 holds one byte
        let payload: [u8; 2] = sym::bytes();
        let data = [0x00u8, 0x02, payload[0], payload[1]];
        let meta = reader_metadata(1);
        let mut ctx = DeserializationContext::new(&data);
        match AdtDeserializer::new(&meta, &mut ctx, 1) {
            Ok(mut d) => {
                err_is(d.read_field::<u8>("a", None), |e| matches!(e, Error::InputEndedUnexpectedly), "a field of an empty generation must fail with end of input");
                let f1 = d.read_field::<u8>("f1", None);
                assert!(matches!(f1, Ok(x) if x == payload[0]), "the generation after an empty one is read from its own window");
                let o = d.read_optional_field::<u8>("f1", None);
                match o { Ok(v) => { let _ = v; assert!(false, "window of generation 1 is exhausted"); } Err(e) => std::mem::forget(e) }
                cover!(true);
                std::mem::forget(d);
            }
            Err(e) => { std::mem::forget(e); assert!(false, "a well-formed evolution header was rejected"); }
        }
        std::mem::forget(ctx);
        std::mem::forget(meta);
    }
}

//@ props=C03,C07,C06 tier=thorough bounds=K1:header[chunk0,chunk2];reader-version-1(first-chunk-empty) cap=2400
header!(c03_k1_first_chunk_empty, 1, [Step::Chunk(0), Step::Chunk(2)]);
//@ props=C03,C07,C06 tier=thorough bounds=K1:header[chunk2,made-optional(pos-0),made-optional(pos-1)];reader-version-0 cap=2400
header!(c03_k1_two_made_optional, 0, [Step::Chunk(2), Step::MadeOptional(0x00), Step::MadeOptional(0xff)]);
