//! `suite!` declares, for one type of the catalogue, up to five harnesses (one CBMC query each):
//!   enc   – real encoder bytes == reference bytes                       (C01/C02, C04, C17)
//!   dec   – real decoder on the reference bytes == the value            (C01/C02, C04)
//!   delim – decode from ref(v) ++ 2 symbolic bytes leaves exactly them  (C07)
//!   trunc – every strict prefix (cut point symbolic) is an error        (C08)
//!   sinks – all outputs agree, SizeCalculator exact                     (C15)
//! Every shape of the type within (maxv elements, maxs characters) is enumerated with concrete
//! structure; all payload bits are symbolic. The trailing `//@ group=.. tier=..` comment is read by
//! /verif/check.
#[macro_export]
macro_rules! suite {
    ($m:ident, $maxv:expr, $maxs:expr, $u:expr, [$($k:ident)*], $t:ty) => {
        pub mod $m {
            #[allow(unused_imports)]
            use super::*;
            $( $crate::suite!(@kind $k, $maxv, $maxs, $u, $t); )*
        }
    };
    (@kind enc, $maxv:expr, $maxs:expr, $u:expr, $t:ty) => {
        $crate::proof! { fn enc() unwind($u) {
            let n = $crate::checks::for_shapes::<$t>($maxv, $maxs, |v| $crate::checks::enc_check(v));
            assert!(n >= 1);
        } }
    };
    (@kind dec, $maxv:expr, $maxs:expr, $u:expr, $t:ty) => {
        $crate::proof! { v0only fn dec() unwind($u) {
            let n = $crate::checks::for_shapes::<$t>($maxv, $maxs, |v| $crate::checks::dec_check(v));
            assert!(n >= 1);
        } }
    };
    (@kind delim, $maxv:expr, $maxs:expr, $u:expr, $t:ty) => {
        $crate::proof! { v0only fn delim() unwind($u) {
            let n = $crate::checks::for_shapes::<$t>($maxv, $maxs, |v| $crate::checks::delim_check(v));
            assert!(n >= 1);
        } }
    };
    (@kind trunc, $maxv:expr, $maxs:expr, $u:expr, $t:ty) => {
        $crate::proof! { v0only fn trunc() unwind($u) {
            let n = $crate::checks::for_shapes::<$t>($maxv, $maxs, |v| $crate::checks::trunc_check(v));
            assert!(n >= 1);
        } }
    };
    (@kind sinks, $maxv:expr, $maxs:expr, $u:expr, $t:ty) => {
        $crate::proof! { fn sinks() unwind($u) {
            let n = $crate::checks::for_shapes::<$t>($maxv, $maxs, |v| $crate::checks::sinks_check(v));
            assert!(n >= 1);
        } }
    };
}
