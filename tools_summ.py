import re,sys
log=open(sys.argv[1]).read()
cur={}; res={}
lines=log.split('\n')
for idx,line in enumerate(lines):
    m=re.match(r'Thread (\d+): Checking harness (\S+)\.\.\.',line)
    if m: cur[m.group(1)]=m.group(2); continue
    m=re.match(r'Thread (\d+): *$',line)
    if m:
        t=m.group(1)
        blk='\n'.join(lines[idx:idx+14])
        st='SUCCESS' if 'VERIFICATION:- SUCCESSFUL' in blk else ('FAILED' if 'VERIFICATION:- FAILED' in blk else '?')
        tm=re.search(r'Verification Time: ([\d.]+)s',blk)
        res[cur.get(t)]=(st,float(tm.group(1)) if tm else None, blk)
fails=[(k,v[1]) for k,v in res.items() if v[0]!='SUCCESS']
print(len(res),'done; non-success:',len(fails))
for k,t in sorted(fails, key=lambda x:str(x[0])):
    blk=res[k][2]
    fc=re.findall(r'Failed Checks: ([^\n]*)',blk)
    print(' ',k,t,[f[:90] for f in fc[:2]], 'TIMEOUT' if 'timed out' in blk else '')
slow=sorted([(v[1],k) for k,v in res.items() if v[1] and v[1]>60],reverse=True)
print('slow:',slow[:40])
