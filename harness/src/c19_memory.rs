//! C19 — memory safety of the safe public API (input half: the decode paths implemented with
//! `unsafe`, with CBMC's pointer checks on; plus a lifetime-escape witness).
//! This module itself contains no `unsafe`: it is what a safe client can write.
#![forbid(unsafe_code)]
use crate::sym;
use desert_core::DeserializationContext;

/// A safe program that registers a reference to a scoped object, lets the scope end and reads the
/// reference back through the public API. If this compiles, the property's "rejected by the
/// compiler" half is refuted; CBMC then reports the dangling dereference.
pub fn witness_scoped_box(ctx: &mut DeserializationContext<'_>, v: u32) -> Option<u32> {
    {
        let scoped: Box<u32> = Box::new(v);
        ctx.state_mut().store_ref(&*scoped);
    } // `scoped` is freed here; the object table still holds its address
    match ctx.try_read_ref() {
        Ok(Some(any)) => any.downcast_ref::<u32>().copied(),
        Ok(None) => None,
        Err(e) => { std::mem::forget(e); None }
    }
}

proof! {
    //@ props=C19 tier=quick bounds=witness:reference-to-a-scoped-Box-read-back-after-the-scope-ended
    fn c19_witness_scoped_box() unwind(4) {
        let data = [1u8];
        let mut ctx = DeserializationContext::new(&data);
        let v = sym::u32_();
        let got = witness_scoped_box(&mut ctx, v);
        // if the API were sound this would be unreachable or return v; the verdict of interest is
        // CBMC's "dereference failure: dead object" inside get_ref_by_id / downcast
        assert!(got.is_none() || got == Some(v), "the object table returned a value that was never stored");
        std::mem::forget(ctx);
    }
}


/// Values produced by decoding are built from the input but must not point into it: a safe client
/// may free or reuse the input buffer while still holding the value.
fn decode_then_drop_input<T: desert_core::BinaryDeserializer>(payload: [u8; 2]) -> Option<T> {
    let input: Vec<u8> = vec![0x02, payload[0], payload[1]]; // raw length 2, two bytes
    let decoded = match desert_core::deserialize::<T>(&input) {
        Ok(v) => Some(v),
        Err(e) => { std::mem::forget(e); None }
    };
    drop(input); // the input buffer is gone from here on
    decoded
}

proof! {
    //@ props=C19 tier=quick bounds=Bytes,Vec<u8>:decoded-from-a-heap-buffer-that-is-freed-before-the-value-is-read;payload-symbolic cap=900
    fn c19_decoded_values_own_their_data() unwind(6) {
        let payload: [u8; 2] = sym::bytes();
        match decode_then_drop_input::<bytes::Bytes>(payload) {
            Some(b) => {
                assert!(b.len() == 2 && b[0] == payload[0] && b[1] == payload[1], "decoded Bytes changed after the input was freed");
                std::mem::forget(b);
            }
            None => assert!(false),
        }
        match decode_then_drop_input::<Vec<u8>>(payload) {
            Some(b) => {
                assert!(b.len() == 2 && b[0] == payload[0] && b[1] == payload[1]);
                cover!(true);
                std::mem::forget(b);
            }
            None => assert!(false),
        }
    }
}
