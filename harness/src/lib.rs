//! Verification harnesses for vigoo/desert-rust (see /verif/DESIGN.md).
//! Every `proof!` is a Kani proof harness under `cargo kani` and an ordinary test natively
//! (replay of counterexamples against the un-hooked build; random smoke run otherwise).
#![allow(clippy::all)]
#[macro_use]
pub mod sym;
#[macro_use]
pub mod suite;
pub mod desert {
    pub use desert_core::*;
}
pub mod refmodel;
pub mod catalogue;
pub mod refmodel_chrono;
pub mod checks;
mod selftest;
mod c01_builtin;
mod c02_derived;
#[cfg(any(kani, desert_verif_hooks))]
mod c03_kernels;
mod c05_total;
#[cfg(any(kani, desert_verif_hooks))]
mod c06_regions;
mod c09_dedup;
mod c10_refs;
mod c12_containers;
mod c13_enums;
mod c15_sources;
mod c17_encode_errors;
mod c18_isolation;
mod c19_memory;
mod c11_varint;
